//! Correspondence harness: drives the real `x86_64` crate (path dependency on /repo's working
//! tree) and prints one protocol line per case; the Lean `driver` evaluates model and oracle on
//! the same lines. Usage: harness <property> [--tier quick|thorough] [--seed N] [--stats FILE]
#![feature(step_trait)]
#![feature(abi_x86_interrupt)]
#![allow(clippy::all)]

mod gen;
mod out;
mod c03;
mod c04;
mod c05;
mod c06;
mod c07;
mod c19;
mod c19_consts;
mod c20;
mod mapper;
mod physmem;
mod c08;
mod c14;
mod c15;
mod trap;
mod c11;
mod c12;
mod c12_fields;
mod c16;
mod c17;
mod c18;
mod softmmu;
mod crash;
mod c13;
mod c13_gen;
mod deliver;

use gen::Rng;
use out::Out;

#[derive(Clone, Copy, PartialEq)]
pub enum Tier {
    Quick,
    Thorough,
}

impl Tier {
    /// Case count scaling: `q` cases in the quick tier, `t` in the thorough tier.
    pub fn n(self, q: u64, t: u64) -> u64 {
        match self {
            Tier::Quick => q,
            Tier::Thorough => t,
        }
    }
}

fn main() {
    let args: Vec<String> = std::env::args().collect();
    if args.len() < 2 {
        eprintln!("usage: harness <property> [--tier quick|thorough] [--seed N] [--stats FILE]");
        std::process::exit(2);
    }
    let prop = args[1].clone();
    // privileged instructions executed outside an observed call are counted and shown on the next protocol line
    trap::allow_stray(true);
    let mut tier = Tier::Quick;
    let mut seed: u64 = 1;
    let mut stats: Option<String> = None;
    let mut i = 2;
    while i < args.len() {
        match args[i].as_str() {
            "--tier" => {
                tier = if args[i + 1] == "thorough" { Tier::Thorough } else { Tier::Quick };
                i += 2;
            }
            "--seed" => {
                seed = args[i + 1].parse().unwrap_or(1);
                i += 2;
            }
            "--stats" => {
                stats = Some(args[i + 1].clone());
                i += 2;
            }
            _ => i += 1,
        }
    }
    // Panics are expected outcomes; keep stderr quiet.
    if std::env::var("VERIF_DEBUG").is_err() {
        std::panic::set_hook(Box::new(|_| {}));
    }
    let mut out = Out::new();
    let ovf = out::overflow_checks_on();
    out.header(&format!("#cfg ovf={}", ovf as u8));
    out.notes.insert("overflow_checks".into(), format!("{}", ovf));
    let mut rng = Rng::new(seed);
    match prop.as_str() {
        "C03" => c03::run(&mut out, &mut rng, tier),
        "C04" => c04::run(&mut out, &mut rng, tier),
        "C05" => c05::run(&mut out, &mut rng, tier),
        "C06" => c06::run(&mut out, &mut rng, tier),
        "C07" => c07::run(&mut out, &mut rng, tier),
        "C19" => c19::run(&mut out, &mut rng, tier),
        "C20" => c20::run(&mut out, &mut rng, tier),
        "C01" | "C02" | "C09" | "C10" | "MAPPER" => {
            let mask = match prop.as_str() {
                "C01" => 1 | 16,
                "C02" => 2,
                "C09" => 4,
                "C10" => 8,
                _ => 31,
            };
            // the corpus (witnesses of past findings, minimised failures) runs first
            crash::install();
            let corpus = std::env::var("VERIF_CORPUS").unwrap_or_else(|_| "/verif/corpus".to_string());
            mapper::run_corpus_dir(&mut out, &format!("{}/mapper", corpus), mask);
            mapper::run_histories(&mut out, &mut rng, tier, mask)
        }
        "C08" => c08::run(&mut out, &mut rng, tier),
        "C14" => c14::run(&mut out, &mut rng, tier),
        "C15" => c15::run(&mut out, &mut rng, tier),
        "C11" => c11::run(&mut out, &mut rng, tier),
        "C12" => c12::run(&mut out, &mut rng, tier),
        "C16" => c16::run(&mut out, &mut rng, tier),
        "C17" => c17::run(&mut out, &mut rng, tier),
        "C18" => c18::run(&mut out, &mut rng, tier),
        "C13" => c13::run(&mut out, &mut rng, tier),
        "trapselftest" => match trap::selftest() {
            Ok(()) => eprintln!("trap selftest ok ({} traps)", trap::total_traps()),
            Err(e) => {
                eprintln!("trap selftest FAILED: {}", e);
                std::process::exit(2);
            }
        },
        _ => {
            eprintln!("unknown property {}", prop);
            std::process::exit(2);
        }
    }
    out.finish(stats.as_deref());
}
