//! C11 (flush half) — `tlb::flush`, `tlb::flush_all`, `MapperFlush::flush`, `MapperFlushAll::flush_all`,
//! `tlb::flush_pcid` and the `Invlpgb` broadcast builder under the trap harness: the operands the
//! invalidation instructions really receive (decoded `invlpg` memory operand, `invpcid` register
//! + 16 descriptor bytes, `invlpgb` RAX/ECX/EDX, the CR3 reload pair).

use crate::gen::Rng;
use crate::out::Out;
use crate::trap::{self, Kind};
use crate::Tier;
use x86_64::instructions::tlb::{self, InvPcidCommand, Invlpgb, Pcid};
use x86_64::structures::paging::mapper::{MapperFlush, MapperFlushAll};
use x86_64::structures::paging::page::{NotGiantPageSize, PageRange};
use x86_64::structures::paging::{Page, PageSize, Size1GiB, Size2MiB, Size4KiB};
use x86_64::VirtAddr;

fn trace(r: &trap::Run<()>) -> String {
    let mut s = String::new();
    for e in &r.events {
        s.push_str(&e.tokens());
        s.push(' ');
    }
    s.push_str(if r.value.is_some() { "; unit" } else { "; panic" });
    s
}

fn mapper_flush<S: PageSize>(out: &mut Out, rng: &mut Rng) {
    let p = Page::<S>::containing_address(VirtAddr::new(rng.canon()));
    let r = trap::run(|| MapperFlush::new(p).flush());
    out.emit("mapper_flush", &[S::SIZE, p.start_address().as_u64()], &trace(&r), true);
}

/// A page range of at most `max_pages` pages, boundary-biased: inside a half, ending exactly at
/// the gap, crossing the gap, reaching the last page, empty and reversed ranges.
fn range<S: PageSize>(rng: &mut Rng, max_pages: u64) -> (Page<S>, Page<S>) {
    let sz = S::SIZE;
    let last_lower = 0x0000_8000_0000_0000u64 - sz;
    let first_upper = 0xffff_8000_0000_0000u64;
    let last = 0u64.wrapping_sub(sz);
    let len = match rng.below(6) {
        0 => rng.below(4),
        1 => max_pages,
        2 => rng.below(max_pages.min(70_000) + 1),
        _ => rng.below(max_pages + 1),
    };
    let pg = |a: u64| Page::<S>::containing_address(VirtAddr::new_truncate(a));
    // positions are counted in pages along the canonical sequence
    let fwd = |p: Page<S>, n: u64| -> Option<Page<S>> { core::iter::Step::forward_checked(p, n as usize) };
    let bwd = |p: Page<S>, n: u64| -> Option<Page<S>> { core::iter::Step::backward_checked(p, n as usize) };
    let (s, e) = match rng.below(10) {
        0 => {
            // ends exactly at the gap
            let e = pg(first_upper);
            (bwd(e, len).unwrap_or(pg(0)), e)
        }
        1 => {
            // crosses the gap
            let k = rng.below(len + 1);
            let s = bwd(pg(first_upper), k).unwrap_or(pg(0));
            (s, fwd(s, len).unwrap_or(pg(last)))
        }
        2 => {
            // reaches the last page
            let e = pg(last);
            (bwd(e, len).unwrap_or(pg(0)), e)
        }
        3 => {
            // starts at 0
            let s = pg(0);
            (s, fwd(s, len).unwrap_or(pg(last)))
        }
        4 => {
            // starts at the first upper page
            let s = pg(first_upper);
            (s, fwd(s, len).unwrap_or(pg(last)))
        }
        5 => {
            // ends at the last lower page (stays in the lower half)
            let e = pg(last_lower);
            (bwd(e, len).unwrap_or(pg(0)), e)
        }
        6 => {
            // empty or reversed
            let a = pg(rng.canon());
            let b = if rng.chance(1, 2) { a } else { bwd(a, 1 + rng.below(5)).unwrap_or(a) };
            (a, b)
        }
        _ => {
            let s = pg(rng.canon());
            (s, fwd(s, len).unwrap_or(pg(last)))
        }
    };
    (s, e)
}

struct Opts {
    pcid: Option<u16>,
    asid: Option<u16>,
    global: bool,
    fin: bool,
    nested: bool,
}

fn invlpgb_case<S: NotGiantPageSize>(out: &mut Out, rng: &mut Rng, count_max: u16, o: &Opts, with_range: bool) {
    let nasid: u32 = match rng.below(4) {
        0 => 0x10000,
        1 => 1 + rng.below(0x8000) as u32,
        _ => 0x8000,
    };
    let supports_nested = o.nested || rng.chance(1, 2);
    let inv = Invlpgb::verif_new(count_max, supports_nested, nasid);
    let eff = (count_max as u64).max(1);
    // keep the number of requests (= trapped instructions) below ~300
    let max_pages = eff.saturating_mul(if rng.chance(1, 16) { 40 + rng.below(260) } else { 1 + rng.below(48) });
    let (s, e) = range::<S>(rng, max_pages);
    let asid = o.asid.map(|a| if (a as u32) < nasid { a } else { (a as u32 % nasid) as u16 });
    let r = trap::run(|| {
        let b0 = inv.build();
        let mut b = b0.pages(if with_range { PageRange { start: s, end: e } } else { PageRange { start: s, end: s } });
        // `pages` is the only way to choose the size parameter; a builder without range is
        // obtained by leaving `page_range` unset on the 4 KiB builder below
        if let Some(p) = o.pcid {
            unsafe { b.pcid(Pcid::new(p).unwrap()) };
        }
        if let Some(a) = asid {
            unsafe { b.asid(a).unwrap() };
        }
        if o.global {
            b.include_global();
        }
        if o.fin {
            b.final_translation_only();
        }
        let b = if o.nested { b.include_nested_translations() } else { b };
        b.flush();
    });
    let args = [
        S::SIZE,
        s.start_address().as_u64(),
        if with_range { e.start_address().as_u64() } else { s.start_address().as_u64() },
        count_max as u64,
        o.pcid.is_some() as u64,
        o.pcid.unwrap_or(0) as u64,
        asid.is_some() as u64,
        asid.unwrap_or(0) as u64,
        o.global as u64,
        o.fin as u64,
        o.nested as u64,
    ];
    out.input_class(&format!("invlpgb sz={} requests={}", S::SIZE, match r.events.len() {
        0 => "0",
        1 => "1",
        2..=9 => "2-9",
        _ => "10+",
    }));
    out.emit("invlpgb_range", &args, &trace(&r), !r.events.is_empty());
}

fn invlpgb_norange(out: &mut Out, rng: &mut Rng, o: &Opts) {
    let nasid = 0x10000;
    let inv = Invlpgb::verif_new(rng.next() as u16, true, nasid);
    let r = trap::run(|| {
        let mut b = inv.build();
        if let Some(p) = o.pcid {
            unsafe { b.pcid(Pcid::new(p).unwrap()) };
        }
        if let Some(a) = o.asid {
            unsafe { b.asid(a).unwrap() };
        }
        if o.global {
            b.include_global();
        }
        if o.fin {
            b.final_translation_only();
        }
        let b = if o.nested { b.include_nested_translations() } else { b };
        b.flush();
    });
    let args = [o.pcid.is_some() as u64, o.pcid.unwrap_or(0) as u64, o.asid.is_some() as u64, o.asid.unwrap_or(0) as u64, o.global as u64, o.fin as u64, o.nested as u64];
    out.emit("invlpgb_all", &args, &trace(&r), true);
}

pub fn run(out: &mut Out, rng: &mut Rng, tier: Tier) {
    if let Err(e) = trap::selftest() {
        eprintln!("trap selftest FAILED: {}", e);
        std::process::exit(2);
    }
    let n = tier.n(1_000, 25_000);
    // tlb::flush / MapperFlush::flush: one invlpg of exactly the address / page start
    for _ in 0..n * 5 * if tier == Tier::Thorough { 4 } else { 1 } {
        let a = rng.canon();
        let r = trap::run(|| tlb::flush(VirtAddr::new(a)));
        out.emit("tlb_flush", &[a], &trace(&r), true);
        mapper_flush::<Size4KiB>(out, rng);
        mapper_flush::<Size2MiB>(out, rng);
        mapper_flush::<Size1GiB>(out, rng);
    }
    // flush_all / MapperFlushAll: CR3 read + write
    for k in 0..n * 5 * if tier == Tier::Thorough { 4 } else { 1 } {
        let cr3 = match rng.below(4) {
            0 => rng.next(),
            1 => (rng.phys() & 0x000f_ffff_ffff_f000) | rng.below(4096), // PCID in the low bits
            _ => (rng.phys() & 0x000f_ffff_ffff_f000) | (rng.below(4) << 3), // non-PCID interface: frame + PWT/PCD
        };
        trap::regs().cr[3] = cr3;
        let r = if k % 2 == 0 { trap::run(|| tlb::flush_all()) } else { trap::run(|| MapperFlushAll::new().flush_all()) };
        let post = trap::regs().cr[3];
        out.emit(if k % 2 == 0 { "tlb_flush_all" } else { "mapper_flush_all" }, &[cr3], &format!("{} ; post {}", trace(&r), post), true);
    }
    // flush_pcid: all four kinds, all PCIDs in the thorough tier
    let pcids: Vec<u16> = if tier == Tier::Thorough { (0..4096).collect() } else { (0..4096).step_by(13).chain([1, 2, 4095, 2048, 2047]).collect() };
    for &p in &pcids {
        let pcid = Pcid::new(p).unwrap();
        for _ in 0..tier.n(3, 20) {
            let a = rng.canon();
            let r = trap::run(|| unsafe { tlb::flush_pcid(InvPcidCommand::Address(VirtAddr::new(a), pcid)) });
            out.emit("flush_pcid", &[0, a, p as u64], &trace(&r), true);
        }
        let r = trap::run(|| unsafe { tlb::flush_pcid(InvPcidCommand::Single(pcid)) });
        out.emit("flush_pcid", &[1, 0, p as u64], &trace(&r), true);
    }
    let r = trap::run(|| unsafe { tlb::flush_pcid(InvPcidCommand::All) });
    out.emit("flush_pcid", &[2, 0, 0], &trace(&r), true);
    let r = trap::run(|| unsafe { tlb::flush_pcid(InvPcidCommand::AllExceptGlobal) });
    out.emit("flush_pcid", &[3, 0, 0], &trace(&r), true);
    // tlbsync
    let inv = Invlpgb::verif_new(7, true, 16);
    let r = trap::run(|| inv.tlbsync());
    out.emit("tlbsync", &[], &trace(&r), true);

    // the broadcast builder: all 32 option combinations x ranges x maxima
    for i in 0..n {
        for combo in 0..32u32 {
            let (rp, ra) = ((rng.next() & 0xfff) as u16, rng.next() as u16);
            let o = Opts {
                pcid: if combo & 1 != 0 { Some(rng.pick(&[0u16, 1, 4095, 0x555, 0xaaa, rp])) } else { None },
                asid: if combo & 2 != 0 { Some(rng.pick(&[0u16, 1, 0x7fff, 0xffff, ra])) } else { None },
                global: combo & 4 != 0,
                fin: combo & 8 != 0,
                nested: combo & 16 != 0,
            };
            let count_max = match (i + combo as u64) % 6 {
                0 => 0u16,
                1 => 1,
                2 => 2,
                3 => 7,
                4 => 65535,
                _ => rng.next() as u16,
            };
            if rng.chance(1, 2) {
                invlpgb_case::<Size4KiB>(out, rng, count_max, &o, true);
            } else {
                invlpgb_case::<Size2MiB>(out, rng, count_max, &o, true);
            }
            if i % 16 == 0 {
                invlpgb_norange(out, rng, &o);
            }
        }
    }
    // the documented assertion: nested translations need processor support
    let inv = Invlpgb::verif_new(1, false, 16);
    let r = trap::run(|| {
        let b = inv.build().include_nested_translations();
        b.flush()
    });
    out.emit("invlpgb_nested_unsupported", &[], &trace(&r), true);
    let kinds = [Kind::Invlpg, Kind::Invpcid, Kind::Invlpgb];
    let _ = kinds;
    out.notes.insert("traps".into(), format!("{}", trap::total_traps()));
    out.notes.insert("unexpected_instructions".into(), format!("{}", trap::unexpected_count() - 1));
}
