//! C06 — alignment and containment.

use crate::gen::{classify, Rng};
use crate::out::{fmt_opt, fmt_r, fmt_rbool, guard, Out};
use crate::Tier;
use x86_64::structures::paging::{Page, PageSize, PhysFrame, Size1GiB, Size2MiB, Size4KiB};
use x86_64::{align_down, align_up, PhysAddr, VirtAddr};

fn containment<S: PageSize>(out: &mut Out, va: u64, pa: u64) {
    let sz = S::SIZE;
    let v = VirtAddr::new(va);
    let p = PhysAddr::new(pa);
    out.emit("pg_containing", &[sz, va], &Page::<S>::containing_address(v).start_address().as_u64().to_string(), true);
    out.emit("pg_from_start", &[sz, va],
        &fmt_opt(Page::<S>::from_start_address(v).ok().map(|p| p.start_address().as_u64())), true);
    out.emit("fr_containing", &[sz, pa], &PhysFrame::<S>::containing_address(p).start_address().as_u64().to_string(), true);
    out.emit("fr_from_start", &[sz, pa],
        &fmt_opt(PhysFrame::<S>::from_start_address(p).ok().map(|p| p.start_address().as_u64())), true);
}

pub fn run(out: &mut Out, rng: &mut Rng, tier: Tier) {
    let reps = tier.n(400, 40_000);
    // all 64 powers of two x boundary-biased addresses; non-powers as the panic stream
    for _ in 0..reps {
        for k in 0..66u32 {
            let al = if k < 64 { 1u64 << k } else { rng.word() };
            let a = match rng.below(4) {
                0 => rng.word(),
                1 if k < 64 => (rng.word() & !(al - 1)).wrapping_add(rng.below(3)).wrapping_sub(1),
                _ => rng.word(),
            };
            out.emit("align_down", &[a, al], &fmt_r(guard(|| align_down(a, al))), k < 64);
            out.emit("align_up", &[a, al], &fmt_r(guard(|| align_up(a, al))), k < 64);
            let va = if rng.chance(1, 3) {
                (((a << 16) as i64) >> 16) as u64
            } else {
                rng.canon()
            };
            out.input_class(classify(va));
            let v = VirtAddr::new(va);
            out.emit("va_align_down", &[va, al], &fmt_r(guard(|| v.align_down(al).as_u64())), k < 64);
            out.emit("va_align_up", &[va, al], &fmt_r(guard(|| v.align_up(al).as_u64())), k < 64);
            out.emit("va_is_aligned", &[va, al], &fmt_rbool(guard(|| v.is_aligned(al))), k < 64);
            let pa = if rng.chance(1, 3) { a & 0x000f_ffff_ffff_ffff } else { rng.phys() };
            let p = PhysAddr::new(pa);
            out.emit("pa_align_down", &[pa, al], &fmt_r(guard(|| p.align_down(al).as_u64())), k < 64);
            out.emit("pa_align_up", &[pa, al], &fmt_r(guard(|| p.align_up(al).as_u64())), k < 64);
            out.emit("pa_is_aligned", &[pa, al], &fmt_rbool(guard(|| p.is_aligned(al))), k < 64);
        }
    }
    for _ in 0..tier.n(20_000, 2_000_000) {
        let mut va = rng.canon();
        let mut pa = rng.phys();
        if rng.chance(1, 2) {
            // aligned or one off an aligned address
            let sz = rng.page_size();
            va = (va & !(sz - 1)).wrapping_add(rng.below(3)).wrapping_sub(1);
            va = (((va << 16) as i64) >> 16) as u64;
            pa = ((pa & !(sz - 1)).wrapping_add(rng.below(3)).wrapping_sub(1)) & 0x000f_ffff_ffff_ffff;
        }
        containment::<Size4KiB>(out, va, pa);
        containment::<Size2MiB>(out, va, pa);
        containment::<Size1GiB>(out, va, pa);
    }
}
