//! C04 — virtual address <-> page-table indices.

use crate::gen::{classify, Rng};
use crate::out::{fmt_opt, fmt_r, guard, Out};
use crate::Tier;
use x86_64::structures::paging::page_table::PageTableLevel;
use x86_64::structures::paging::{Page, PageOffset, PageSize, PageTableIndex, Size1GiB, Size2MiB, Size4KiB};
use x86_64::VirtAddr;

const LEVELS: [PageTableLevel; 4] = [PageTableLevel::One, PageTableLevel::Two, PageTableLevel::Three, PageTableLevel::Four];

fn u(i: PageTableIndex) -> u64 {
    u16::from(i) as u64
}

fn pg_idx<S: PageSize>(out: &mut Out, a: u64) {
    let p = Page::<S>::containing_address(VirtAddr::new(a));
    let s = p.start_address();
    // p2_index/p1_index exist only for the smaller sizes; they read the start address
    let v = [
        u(p.p4_index()), u(p.p3_index()), u(s.p2_index()), u(s.p1_index()),
        u(p.page_table_index(LEVELS[0])), u(p.page_table_index(LEVELS[1])),
        u(p.page_table_index(LEVELS[2])), u(p.page_table_index(LEVELS[3])),
    ];
    let o = v.iter().map(|x| x.to_string()).collect::<Vec<_>>().join(" ");
    out.emit("pg_idx", &[S::SIZE, s.as_u64()], &o, true);
}

fn special(rng: &mut Rng) -> u16 {
    rng.pick(&[0u16, 1, 255, 256, 257, 510, 511])
}

pub fn run(out: &mut Out, rng: &mut Rng, tier: Tier) {
    for _ in 0..tier.n(100_000, 10_000_000) {
        let a = rng.canon();
        out.input_class(classify(a));
        let va = VirtAddr::new(a);
        let v = [
            u(va.p4_index()), u(va.p3_index()), u(va.p2_index()), u(va.p1_index()),
            u16::from(va.page_offset()) as u64,
            u(va.page_table_index(LEVELS[0])), u(va.page_table_index(LEVELS[1])),
            u(va.page_table_index(LEVELS[2])), u(va.page_table_index(LEVELS[3])),
        ];
        let o = v.iter().map(|x| x.to_string()).collect::<Vec<_>>().join(" ");
        out.emit("va_idx", &[a], &o, true);
    }
    for _ in 0..tier.n(20_000, 1_000_000) {
        let a = rng.canon();
        pg_idx::<Size4KiB>(out, a);
        pg_idx::<Size2MiB>(out, a);
        pg_idx::<Size1GiB>(out, a);
    }
    // index quadruples: random, plus all with some index in {0,1,255,256,257,510,511}
    for k in 0..tier.n(20_000, 1_000_000) {
        let mut i = [rng.below(512) as u16, rng.below(512) as u16, rng.below(512) as u16, rng.below(512) as u16];
        if k % 2 == 0 {
            let pos = rng.below(4) as usize;
            i[pos] = special(rng);
            if rng.chance(1, 2) {
                let pos2 = rng.below(4) as usize;
                i[pos2] = special(rng);
            }
        }
        let ix = |j: usize| PageTableIndex::new(i[j]);
        let args = [i[0] as u64, i[1] as u64, i[2] as u64, i[3] as u64];
        out.emit("from_idx4k", &args,
            &Page::from_page_table_indices(ix(0), ix(1), ix(2), ix(3)).start_address().as_u64().to_string(), true);
        out.emit("from_idx2m", &args[..3],
            &Page::from_page_table_indices_2mib(ix(0), ix(1), ix(2)).start_address().as_u64().to_string(), true);
        out.emit("from_idx1g", &args[..2],
            &Page::from_page_table_indices_1gib(ix(0), ix(1)).start_address().as_u64().to_string(), true);
    }
    // stepping an index (Step for PageTableIndex) never leaves 0..512: same lines as in the C05 stream
    crate::c05::index_steps(out, tier);
    // constructors: all u16 (exhaustive)
    for i in 0..=u16::MAX {
        out.emit("idx_new", &[i as u64], &fmt_r(guard(|| u(PageTableIndex::new(i)))), true);
        out.emit("idx_trunc", &[i as u64], &u(PageTableIndex::new_truncate(i)).to_string(), true);
        out.emit("off_new", &[i as u64], &fmt_r(guard(|| u16::from(PageOffset::new(i)) as u64)), true);
        out.emit("off_trunc", &[i as u64], &(u16::from(PageOffset::new_truncate(i)) as u64).to_string(), true);
    }
    for (n, l) in LEVELS.iter().enumerate() {
        let lo = l.next_lower_level().map(|x| x as u64);
        let hi = l.next_higher_level().map(|x| x as u64);
        let o = format!("{} {} {} {}", fmt_opt(lo), fmt_opt(hi), l.table_address_space_alignment(), l.entry_address_space_alignment());
        out.emit("level", &[n as u64 + 1], &o, true);
    }
}
