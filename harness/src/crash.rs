//! Crash reporting for the mapper histories: when the real mapper code dereferences an address outside the
//! simulated physical memory (a corrupted hierarchy: an un-zeroed table, a data frame taken for a table, a
//! truncated frame address), the process dies with SIGSEGV inside the call. That is an observation, not a
//! failure of the harness: the handler prints the protocol line of the operation in progress as
//! `mh_crash <opcode> <szc> <page> <frame> <flags> <pflags> => crash` (async-signal-safe `write`) and exits
//! with status 3; the driver's oracle rejects the line (C01/C02/C09/C10), `run.py` keeps everything printed
//! before it.
use libc::{c_int, c_void, siginfo_t};

static mut PENDING: [u8; 1024] = [0; 1024];
static mut PENDING_LEN: usize = 0;

/// Remember the operation that is about to run (output must have been flushed by the caller).
pub fn arm(line: &str) {
    unsafe {
        let b = line.as_bytes();
        let n = b.len().min(1023);
        PENDING[..n].copy_from_slice(&b[..n]);
        PENDING[n] = b'\n';
        PENDING_LEN = n + 1;
    }
}

pub fn disarm() {
    unsafe {
        PENDING_LEN = 0;
    }
}

/// Print the pending operation (if any) as a crash line and terminate. Callable from signal handlers.
pub fn report_and_exit(reason: &str) -> ! {
    unsafe {
        libc::write(2, reason.as_ptr() as *const c_void, reason.len());
        if PENDING_LEN != 0 {
            libc::write(1, PENDING.as_ptr() as *const c_void, PENDING_LEN);
            libc::_exit(3);
        }
        libc::_exit(70);
    }
}

extern "C" fn handler(_sig: c_int, _info: *mut siginfo_t, _ctx: *mut c_void) {
    report_and_exit("harness: memory fault inside a mapper call (address outside the simulated physical memory)\n");
}

pub fn install() {
    unsafe {
        let mut sa: libc::sigaction = core::mem::zeroed();
        sa.sa_sigaction = handler as *const () as usize;
        sa.sa_flags = libc::SA_SIGINFO | libc::SA_NODEFER;
        libc::sigemptyset(&mut sa.sa_mask);
        libc::sigaction(libc::SIGSEGV, &sa, core::ptr::null_mut());
        libc::sigaction(libc::SIGBUS, &sa, core::ptr::null_mut());
    }
}
