//! C03 — address values are always valid: constructors + random programs of safe operations.

use crate::gen::{classify, Rng};
use crate::out::{fmt_opt, guard, Out};
use crate::Tier;
use core::iter::Step;
use x86_64::structures::idt::{Entry, HandlerFunc};
use x86_64::structures::paging::page_table::PageTableEntry;
use x86_64::structures::paging::{Page, PageSize, PageTableIndex, PhysFrame, Size1GiB, Size2MiB, Size4KiB};
use x86_64::{PhysAddr, VirtAddr};

fn pick_align(rng: &mut Rng) -> u64 {
    if rng.chance(9, 10) {
        1u64 << rng.below(64)
    } else {
        rng.word()
    }
}

fn with_size<T>(sz: u64, f4: impl FnOnce() -> T, f2: impl FnOnce() -> T, f1: impl FnOnce() -> T) -> T {
    if sz == 4096 {
        f4()
    } else if sz == 1 << 21 {
        f2()
    } else {
        f1()
    }
}

fn page_op<S: PageSize>(v: VirtAddr, op: u64, n: u64) -> Option<VirtAddr> {
    let p = Page::<S>::containing_address(v);
    match op {
        11 => Some(p.start_address()),
        12 => Page::<S>::from_start_address(v).ok().map(|p| p.start_address()),
        13 => guard(|| (p + n).start_address()),
        14 => guard(|| (p - n).start_address()),
        15 => Step::forward_checked(p, n as usize).map(|q| q.start_address()),
        16 => Step::backward_checked(p, n as usize).map(|q| q.start_address()),
        _ => unreachable!(),
    }
}

fn frame_op<S: PageSize>(v: PhysAddr, op: u64, n: u64) -> Option<PhysAddr> {
    let f = PhysFrame::<S>::containing_address(v);
    match op {
        11 => Some(f.start_address()),
        12 => PhysFrame::<S>::from_start_address(v).ok().map(|f| f.start_address()),
        13 => guard(|| (f + n).start_address()),
        14 => guard(|| (f - n).start_address()),
        _ => unreachable!(),
    }
}

fn handler_addr_of(raw: u64) -> VirtAddr {
    // Entry layout (repr(C)): pointer_low u16 @0, selector u16 @2, option bits u16 @4,
    // pointer_middle u16 @6, pointer_high u32 @8, reserved u32 @12.
    let mut e: Entry<HandlerFunc> = Entry::missing();
    unsafe {
        let p = &mut e as *mut _ as *mut u8;
        (p as *mut u16).write_unaligned(raw as u16);
        (p.add(6) as *mut u16).write_unaligned((raw >> 16) as u16);
        (p.add(8) as *mut u32).write_unaligned((raw >> 32) as u32);
    }
    e.handler_addr()
}

fn vprog(out: &mut Out, rng: &mut Rng) {
    let len = 1 + rng.below(12);
    let mut args: Vec<u64> = Vec::new();
    let mut cur: Option<VirtAddr> = Some(VirtAddr::zero());
    let mut nontrivial = false;
    for step in 0..len {
        // first op is always a leaf
        let op = if step == 0 || rng.chance(1, 8) {
            rng.pick(&[0u64, 1, 2, 3, 4, 17, 18, 19, 20])
        } else {
            rng.pick(&[5u64, 6, 7, 8, 9, 10, 11, 12, 13, 14, 15, 16])
        };
        let (a, b): (u64, u64) = match op {
            0 | 1 | 4 => (if rng.chance(3, 4) { rng.canon() } else { rng.word() }, 0),
            2 | 20 => (rng.word(), 0),
            3 => (0, 0),
            5 | 6 => (pick_align(rng), 0),
            7 | 8 | 9 | 10 => (rng.count(), 0),
            11 | 12 => (rng.page_size(), 0),
            13 | 14 | 15 | 16 => (rng.page_size(), rng.count()),
            17 | 18 | 19 => (rng.below(1 << 36), 0),
            _ => unreachable!(),
        };
        args.extend_from_slice(&[op, a, b]);
        let idx = |k: u64| PageTableIndex::new(((a >> (9 * k)) & 511) as u16);
        cur = match op {
            0 => guard(|| VirtAddr::new(a)),
            4 => guard(|| VirtAddr::from_ptr(a as *const u8)),
            1 => VirtAddr::try_new(a).ok(),
            2 => Some(VirtAddr::new_truncate(a)),
            3 => Some(VirtAddr::zero()),
            17 => Some(Page::from_page_table_indices(idx(3), idx(2), idx(1), idx(0)).start_address()),
            18 => Some(Page::from_page_table_indices_2mib(idx(3), idx(2), idx(1)).start_address()),
            19 => Some(Page::from_page_table_indices_1gib(idx(3), idx(2)).start_address()),
            20 => Some(handler_addr_of(a)),
            _ => match cur {
                None => None,
                Some(v) => {
                    nontrivial = true;
                    match op {
                        5 => guard(|| v.align_up(a)),
                        6 => guard(|| v.align_down(a)),
                        7 => guard(|| v + a),
                        8 => guard(|| v - a),
                        9 => Step::forward_checked(v, a as usize),
                        10 => Step::backward_checked(v, a as usize),
                        _ => with_size(
                            a,
                            || page_op::<Size4KiB>(v, op, b),
                            || page_op::<Size2MiB>(v, op, b),
                            || page_op::<Size1GiB>(v, op, b),
                        ),
                    }
                }
            },
        };
        // `+=`/`-=` forms are the same code path as `+`/`-` (add_assign calls add); exercise them too
        if let (Some(v), 7) = (cur, op) {
            let mut w = v;
            if guard(|| w -= a).is_some() {
                let _ = guard(|| w += a);
            }
        }
    }
    if let Some(v) = cur {
        out.input_class(classify(v.as_u64()));
    } else {
        out.input_class("no-value");
    }
    out.emit("vprog", &args, &fmt_opt(cur.map(|v| v.as_u64())), nontrivial);
}

fn pprog(out: &mut Out, rng: &mut Rng) {
    let len = 1 + rng.below(12);
    let mut args: Vec<u64> = Vec::new();
    let mut cur: Option<PhysAddr> = Some(PhysAddr::zero());
    let mut nontrivial = false;
    for step in 0..len {
        let op = if step == 0 || rng.chance(1, 8) {
            rng.pick(&[0u64, 1, 2, 3, 20])
        } else {
            rng.pick(&[5u64, 6, 7, 8, 11, 12, 13, 14])
        };
        let (a, b): (u64, u64) = match op {
            0 | 1 => (if rng.chance(3, 4) { rng.phys() } else { rng.word() }, 0),
            2 | 20 => (rng.word(), 0),
            3 => (0, 0),
            5 | 6 => (pick_align(rng), 0),
            7 | 8 => (rng.count(), 0),
            11 | 12 => (rng.page_size(), 0),
            13 | 14 => (rng.page_size(), rng.count()),
            _ => unreachable!(),
        };
        args.extend_from_slice(&[op, a, b]);
        cur = match op {
            0 => guard(|| PhysAddr::new(a)),
            1 => PhysAddr::try_new(a).ok(),
            2 => Some(PhysAddr::new_truncate(a)),
            3 => Some(PhysAddr::zero()),
            20 => {
                let e: PageTableEntry = unsafe { core::mem::transmute::<u64, PageTableEntry>(a) };
                guard(|| e.addr())
            }
            _ => match cur {
                None => None,
                Some(v) => {
                    nontrivial = true;
                    match op {
                        5 => guard(|| v.align_up(a)),
                        6 => guard(|| v.align_down(a)),
                        7 => guard(|| v + a),
                        8 => guard(|| v - a),
                        _ => with_size(
                            a,
                            || frame_op::<Size4KiB>(v, op, b),
                            || frame_op::<Size2MiB>(v, op, b),
                            || frame_op::<Size1GiB>(v, op, b),
                        ),
                    }
                }
            },
        };
    }
    out.emit("pprog", &args, &fmt_opt(cur.map(|v| v.as_u64())), nontrivial);
}

pub fn run(out: &mut Out, rng: &mut Rng, tier: Tier) {
    for _ in 0..tier.n(50_000, 5_000_000) {
        let a = rng.word();
        out.input_class(classify(a));
        out.emit("va_try_new", &[a], &fmt_opt(VirtAddr::try_new(a).ok().map(|v| v.as_u64())), true);
        out.emit("va_new_truncate", &[a], &VirtAddr::new_truncate(a).as_u64().to_string(), true);
        out.emit("pa_try_new", &[a], &fmt_opt(PhysAddr::try_new(a).ok().map(|v| v.as_u64())), true);
        out.emit("pa_new_truncate", &[a], &PhysAddr::new_truncate(a).as_u64().to_string(), true);
    }
    for _ in 0..tier.n(50_000, 3_000_000) {
        vprog(out, rng);
        pprog(out, rng);
    }
}
