//! C05 — stepping over the canonical address space (addresses, pages of three sizes, indices).

use crate::gen::{classify, Rng};
use crate::out::{fmt_opt, fmt_pair, Out};
use crate::Tier;
use core::iter::Step;
use x86_64::structures::paging::{Page, PageSize, PageTableIndex, Size1GiB, Size2MiB, Size4KiB};
use x86_64::VirtAddr;

fn page_ops<S: PageSize>(out: &mut Out, rng: &mut Rng) {
    let sz = S::SIZE;
    let p = Page::<S>::containing_address(VirtAddr::new(rng.canon()));
    let pa = p.start_address().as_u64();
    // counts in pages: small, around the distance to a boundary, huge
    let n = match rng.below(6) {
        0 => rng.below(3),
        1 => (0x0000_8000_0000_0000u64.wrapping_sub(pa) / sz).wrapping_add(rng.below(5)).wrapping_sub(2),
        2 => (0u64.wrapping_sub(pa) / sz).wrapping_add(rng.below(5)).wrapping_sub(2),
        3 => ((pa & 0xffff_ffff_ffff) / sz).wrapping_add(rng.below(5)).wrapping_sub(2),
        _ => rng.count(),
    };
    let f = Step::forward_checked(p, n as usize).map(|q| q.start_address().as_u64());
    out.emit("pg_fwd", &[sz, pa, n], &fmt_opt(f), n != 0);
    let b = Step::backward_checked(p, n as usize).map(|q| q.start_address().as_u64());
    out.emit("pg_bwd", &[sz, pa, n], &fmt_opt(b), n != 0);
    let q = if rng.chance(1, 2) {
        f.or(b).map(|a| Page::<S>::containing_address(VirtAddr::new(a))).unwrap_or(p)
    } else {
        Page::<S>::containing_address(VirtAddr::new(rng.canon()))
    };
    let qa = q.start_address().as_u64();
    out.emit("pg_steps", &[sz, pa, qa], &fmt_pair(Step::steps_between(&p, &q)), pa != qa);
    out.emit("pg_steps", &[sz, qa, pa], &fmt_pair(Step::steps_between(&q, &p)), pa != qa);
}

pub fn run(out: &mut Out, rng: &mut Rng, tier: Tier) {
    // Addresses.
    for _ in 0..tier.n(30_000, 3_000_000) {
        let s = rng.canon();
        out.input_class(classify(s));
        let n = match rng.below(6) {
            0 => rng.below(3),
            1 => 0x0000_8000_0000_0000u64.wrapping_sub(s).wrapping_add(rng.below(5)).wrapping_sub(2),
            2 => 0u64.wrapping_sub(s).wrapping_add(rng.below(5)).wrapping_sub(2),
            3 => (s & 0xffff_ffff_ffff).wrapping_add(rng.below(5)).wrapping_sub(2),
            4 => (1u64 << 48).wrapping_add(rng.below(5)).wrapping_sub(2),
            _ => rng.count(),
        };
        let va = VirtAddr::new(s);
        let f = Step::forward_checked(va, n as usize).map(|v| v.as_u64());
        out.emit("va_fwd", &[s, n], &fmt_opt(f), n != 0);
        let b = Step::backward_checked(va, n as usize).map(|v| v.as_u64());
        out.emit("va_bwd", &[s, n], &fmt_opt(b), n != 0);
        let e = if rng.chance(1, 2) { f.or(b).unwrap_or(s) } else { rng.canon() };
        let ve = VirtAddr::new(e);
        out.emit("va_steps", &[s, e], &fmt_pair(Step::steps_between(&va, &ve)), s != e);
        out.emit("va_steps", &[e, s], &fmt_pair(Step::steps_between(&ve, &va)), s != e);
    }
    // Pages of the three sizes.
    for _ in 0..tier.n(10_000, 1_000_000) {
        page_ops::<Size4KiB>(out, rng);
        page_ops::<Size2MiB>(out, rng);
        page_ops::<Size1GiB>(out, rng);
    }
    index_steps(out, tier);
}

/// Table indices: all 512 indices x counts 0..600 (+ huge counts) — exhaustive in the index. Also part of the C04
/// stream ("index values never leave 0..512": stepping is one of the operations that produce indices).
pub fn index_steps(out: &mut Out, tier: Tier) {
    let huge = [usize::MAX, usize::MAX - 1, 1 << 16, (1 << 16) - 1, 1 << 32, 65535 - 511, 65536 - 511];
    for i in 0..512u16 {
        let idx = PageTableIndex::new(i);
        let step = if tier == Tier::Quick { 7 } else { 1 };
        let mut counts: Vec<usize> = (0..600).step_by(step).collect();
        counts.extend_from_slice(&[511 - i as usize, 512 - i as usize, i as usize, i as usize + 1]);
        counts.extend_from_slice(&huge);
        for &n in &counts {
            let f = Step::forward_checked(idx, n).map(|j| u16::from(j) as u64);
            out.emit("idx_fwd", &[i as u64, n as u64], &fmt_opt(f), true);
            let b = Step::backward_checked(idx, n).map(|j| u16::from(j) as u64);
            out.emit("idx_bwd", &[i as u64, n as u64], &fmt_opt(b), true);
        }
        for j in [0u16, 1, i, i.saturating_sub(1), (i + 1).min(511), 255, 256, 511] {
            let jd = PageTableIndex::new(j);
            out.emit("idx_steps", &[i as u64, j as u64], &fmt_pair(Step::steps_between(&idx, &jd)), true);
        }
    }
}
