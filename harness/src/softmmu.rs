//! Software MMU for `RecursivePageTable` (DESIGN.md section 5.3) and a minimal `mov r64, cr3` trap.
//!
//! The recursive mapper reaches every page table through virtual addresses inside P4 slot `R`
//! (the recursive index). In a user process, for `R < 256`, these addresses are made to work like
//! this: a SIGSEGV at an unmapped address inside slot `R` is resolved by a hardware-style 4-level
//! walk of the *simulated* physical memory (the `physmem::Pool`, a memfd) starting at the emulated
//! CR3, and the frame the walk reaches is `mmap`ed (`MAP_SHARED | MAP_FIXED_NOREPLACE`, at its memfd
//! offset) at the faulting page. Every such mapping is dropped again by [`end_call`] (a "TLB
//! flush"), so each mapper call re-walks the current tables. The walk follows entries exactly like
//! the hardware: the present bit at every level; bit 7 (PS) in the level-3/level-2 position ends
//! the walk as a 1 GiB / 2 MiB page, in which case the reached "frame" is the 4 KiB piece of the
//! huge data frame selected by the remaining address bits; the level-1 position always yields a
//! 4 KiB frame (bit 7 is the PAT bit there). Frames outside the pool are represented by the
//! pool's foreign page, so a stray access is seen, not fatal.
//!
//! The fault log (faulting virtual page, physical frame reached, how the walk ended) is written
//! into a fixed-size static buffer; the handler only uses async-signal-safe operations (no
//! allocation, `mmap`, `write`, `sigaction`).
//!
//! `mov r64, cr3` (`[REX] 0f 20 /r` with reg = 3) raises #GP in user mode, delivered as SIGSEGV
//! with `si_code = SI_KERNEL`. While CR3 emulation is armed, the handler recognises exactly this
//! encoding, writes the emulated CR3 value into the destination register of the saved context and
//! steps over the instruction.
//!
//! Any other SIGSEGV is a genuine crash: the previous disposition is restored and the
//! instruction re-executed. The handler is self-contained: [`SoftMmu::install`] saves the previous
//! SIGSEGV action and `Drop` restores it, so it can coexist with `trap.rs` (installed around the
//! recursive histories / the C20 cases only).

#![allow(static_mut_refs)]

use crate::physmem::Pool;
use libc::{c_int, c_void, siginfo_t};

const SEGV_MAPERR: c_int = 1; // <asm-generic/siginfo.h>: address not mapped to object

pub const MAX_FRAMES: usize = 1024;
pub const MAX_LOG: usize = 8192;

/// How a walk ended.
pub const KIND_TABLE_WALK: u8 = 0; // four present, non-PS levels: the frame of the last-level entry
pub const KIND_HUGE: u8 = 1; // a PS entry in the level-3/2 position: a piece of a huge data frame
pub const KIND_NOT_PRESENT: u8 = 2; // a non-present (or reserved-bit) entry: a real CPU would page-fault

#[derive(Clone, Copy, Debug, PartialEq, Eq)]
pub struct Fault {
    pub vpage: u64,
    /// physical address of the 4 KiB frame reached (0 when not present)
    pub frame: u64,
    pub kind: u8,
    /// set by `end_call`: 0 = during the operation itself, 1 = during the probe translations
    pub phase: u8,
}

const NOFAULT: Fault = Fault { vpage: 0, frame: 0, kind: 0, phase: 0 };

struct State {
    active: bool,
    r: u64,
    cr3: u64,
    fd: c_int,
    base: *const u8,
    nslots: usize,
    foreign_slot: usize,
    phys: [u64; MAX_FRAMES],
    log: [Fault; MAX_LOG],
    nlog: usize,
    overflow: bool,
    // pages currently mapped by the handler (same entries as log[flushed..nlog])
    flushed: usize,
    // CR3 emulation
    cr3_armed: bool,
    cr3_value: u64,
    cr3_reads: u64,
    // statistics
    faults_total: u64,
}

static mut ST: State = State {
    active: false,
    r: 0,
    cr3: 0,
    fd: -1,
    base: core::ptr::null(),
    nslots: 0,
    foreign_slot: 0,
    phys: [0; MAX_FRAMES],
    log: [NOFAULT; MAX_LOG],
    nlog: 0,
    overflow: false,
    flushed: 0,
    cr3_armed: false,
    cr3_value: 0,
    cr3_reads: 0,
    faults_total: 0,
};

static mut OLD_ACTION: Option<libc::sigaction> = None;
// accumulated log of the current operation (outside the handler)
static mut ACC: Vec<Fault> = Vec::new();

fn fatal(msg: &str) {
    unsafe {
        libc::write(2, msg.as_ptr() as *const c_void, msg.len());
    }
}

unsafe fn slot_of(st: &State, frame: u64) -> usize {
    for k in 0..st.nslots {
        if st.phys[k] == frame {
            return k;
        }
    }
    st.foreign_slot
}

unsafe fn read_phys(st: &State, frame: u64, idx: u64) -> u64 {
    let slot = slot_of(st, frame);
    (st.base.add(slot * 4096) as *const u64).add(idx as usize).read_volatile()
}

/// The hardware walk (Intel SDM Vol. 3A section 4.5) of the simulated memory for `va`.
unsafe fn walk(st: &State, va: u64) -> (u64, u8) {
    const ADDR: u64 = 0x000f_ffff_ffff_f000;
    let idx = [(va >> 39) & 511, (va >> 30) & 511, (va >> 21) & 511, (va >> 12) & 511];
    let mut table = st.cr3 & ADDR;
    for level in (1..=4u32).rev() {
        let e = read_phys(st, table, idx[(4 - level) as usize]);
        if e & 1 == 0 {
            return (0, KIND_NOT_PRESENT);
        }
        match level {
            4 => {
                if e & 0x80 != 0 {
                    return (0, KIND_NOT_PRESENT); // reserved bit in a PML4E
                }
            }
            3 => {
                if e & 0x80 != 0 {
                    return ((e & 0x000f_ffff_c000_0000) + (va & 0x3fff_f000), KIND_HUGE);
                }
            }
            2 => {
                if e & 0x80 != 0 {
                    return ((e & 0x000f_ffff_ffe0_0000) + (va & 0x001f_f000), KIND_HUGE);
                }
            }
            _ => return (e & ADDR, KIND_TABLE_WALK),
        }
        table = e & ADDR;
    }
    unreachable!()
}

const REG_MAP: [c_int; 16] = [
    libc::REG_RAX,
    libc::REG_RCX,
    libc::REG_RDX,
    libc::REG_RBX,
    libc::REG_RSP,
    libc::REG_RBP,
    libc::REG_RSI,
    libc::REG_RDI,
    libc::REG_R8,
    libc::REG_R9,
    libc::REG_R10,
    libc::REG_R11,
    libc::REG_R12,
    libc::REG_R13,
    libc::REG_R14,
    libc::REG_R15,
];

extern "C" fn handler(_sig: c_int, info: *mut siginfo_t, ctx: *mut c_void) {
    unsafe {
        let st = &mut ST;
        let code = (*info).si_code;
        // 1. a page fault at an unmapped address inside the recursive slot
        if st.active && code == SEGV_MAPERR {
            let addr = (*info).si_addr() as u64;
            if addr >> 39 == st.r && st.r >= 1 && st.r < 256 {
                let vpage = addr & !0xfff;
                let (frame, kind) = walk(st, vpage);
                let slot = if kind == KIND_NOT_PRESENT { st.foreign_slot } else { slot_of(st, frame) };
                if st.nlog >= MAX_LOG {
                    crate::crash::report_and_exit("softmmu: fault log overflow (runaway walk through a corrupted hierarchy)\n");
                }
                let p = libc::mmap(
                    vpage as *mut c_void,
                    4096,
                    libc::PROT_READ | libc::PROT_WRITE,
                    libc::MAP_SHARED | libc::MAP_FIXED_NOREPLACE,
                    st.fd,
                    (slot * 4096) as libc::off_t,
                );
                if p != vpage as *mut c_void {
                    crate::crash::report_and_exit("softmmu: mmap at the faulting page failed (address in use?)\n");
                }
                st.log[st.nlog] = Fault { vpage, frame, kind, phase: 0 };
                st.nlog += 1;
                st.faults_total += 1;
                return;
            }
        }
        // 2. `mov r64, cr3` trapped with #GP
        if st.cr3_armed && code == libc::SI_KERNEL {
            let uc = ctx as *mut libc::ucontext_t;
            let gregs = &mut (*uc).uc_mcontext.gregs;
            let rip = gregs[libc::REG_RIP as usize] as u64;
            let b = rip as *const u8;
            let (rex, off) = if *b & 0xf0 == 0x40 { (*b, 1usize) } else { (0u8, 0usize) };
            if *b.add(off) == 0x0f && *b.add(off + 1) == 0x20 {
                let modrm = *b.add(off + 2);
                // mod = 11, reg = 3 (CR3; REX.R would select CR11), rm = destination GPR (+8 with REX.B)
                if modrm & 0xc0 == 0xc0 && (modrm >> 3) & 7 == 3 && rex & 0x04 == 0 {
                    let gpr = (modrm & 7) as usize + if rex & 0x01 != 0 { 8 } else { 0 };
                    gregs[REG_MAP[gpr] as usize] = st.cr3_value as i64;
                    gregs[libc::REG_RIP as usize] = (rip + off as u64 + 3) as i64;
                    st.cr3_reads += 1;
                    return;
                }
            }
        }
        // 3. a genuine crash: back to the previous disposition, re-execute
        fatal("softmmu: SIGSEGV outside the recursive slot (genuine crash)\n");
        match OLD_ACTION {
            Some(old) => {
                libc::sigaction(libc::SIGSEGV, &old, core::ptr::null_mut());
            }
            None => {
                libc::signal(libc::SIGSEGV, libc::SIG_DFL);
            }
        }
    }
}

/// Is the 512 GiB region of P4 slot `r` free of mappings in this process, and is the slot usable
/// from user space at all (`r < 256`; the page (r,r,r,r) must be below the user address limit)?
pub fn slot_usable(r: u64) -> bool {
    if r == 0 || r >= 256 {
        return false;
    }
    let lo = r << 39;
    let hi = (r + 1) << 39;
    let maps = match std::fs::read_to_string("/proc/self/maps") {
        Ok(m) => m,
        Err(_) => return false,
    };
    for line in maps.lines() {
        let range = line.split(' ').next().unwrap_or("");
        let mut it = range.split('-');
        let a = u64::from_str_radix(it.next().unwrap_or("0"), 16).unwrap_or(0);
        let b = u64::from_str_radix(it.next().unwrap_or("0"), 16).unwrap_or(0);
        if a < hi && b > lo {
            return false;
        }
    }
    // the kernel refuses mappings at or above TASK_SIZE (2^47 - 4096): probe the P4 page
    let p4 = recursive_p4_addr(r);
    unsafe {
        let p = libc::mmap(
            p4 as *mut c_void,
            4096,
            libc::PROT_NONE,
            libc::MAP_PRIVATE | libc::MAP_ANONYMOUS | libc::MAP_FIXED_NOREPLACE,
            -1,
            0,
        );
        if p != p4 as *mut c_void {
            if p != libc::MAP_FAILED {
                libc::munmap(p, 4096);
            }
            return false;
        }
        libc::munmap(p, 4096);
    }
    true
}

/// The virtual address of the P4 table under recursive index `r`: (r, r, r, r).
pub fn recursive_p4_addr(r: u64) -> u64 {
    (r << 39) | (r << 30) | (r << 21) | (r << 12)
}

/// An installed software MMU. Dropping it removes all its mappings and restores the previous
/// SIGSEGV disposition.
pub struct SoftMmu {
    fixed: Vec<u64>,
}

impl SoftMmu {
    /// Install the handler for recursive index `r` over `pool` with emulated CR3 = `cr3`.
    /// `foreign_slot` is the pool slot standing in for every frame outside the pool.
    pub fn install(pool: &Pool, foreign_slot: usize, r: u64, cr3: u64) -> SoftMmu {
        assert!(pool.nframes <= MAX_FRAMES);
        unsafe {
            assert!(!ST.active, "software MMU already installed");
            ST.r = r;
            ST.cr3 = cr3;
            ST.fd = pool.fd;
            ST.base = pool.base;
            ST.nslots = pool.nframes;
            ST.foreign_slot = foreign_slot;
            for (k, &p) in pool.phys.iter().enumerate() {
                ST.phys[k] = p;
            }
            ST.nlog = 0;
            ST.flushed = 0;
            ST.overflow = false;
            ST.cr3_armed = false;
            ACC.clear();
            let mut sa: libc::sigaction = core::mem::zeroed();
            sa.sa_sigaction = handler as *const () as usize;
            sa.sa_flags = libc::SA_SIGINFO | libc::SA_NODEFER;
            libc::sigemptyset(&mut sa.sa_mask);
            let mut old: libc::sigaction = core::mem::zeroed();
            assert_eq!(libc::sigaction(libc::SIGSEGV, &sa, &mut old), 0);
            OLD_ACTION = Some(old);
            ST.active = true;
        }
        SoftMmu { fixed: Vec::new() }
    }

    /// Map pool slot `slot` permanently (until drop / `unmap_fixed`) at `vaddr`. Returns false when
    /// the address is not available.
    pub fn map_fixed(&mut self, slot: usize, vaddr: u64) -> bool {
        unsafe {
            let p = libc::mmap(
                vaddr as *mut c_void,
                4096,
                libc::PROT_READ | libc::PROT_WRITE,
                libc::MAP_SHARED | libc::MAP_FIXED_NOREPLACE,
                ST.fd,
                (slot * 4096) as libc::off_t,
            );
            if p != vaddr as *mut c_void {
                if p != libc::MAP_FAILED {
                    libc::munmap(p, 4096);
                }
                return false;
            }
        }
        self.fixed.push(vaddr);
        true
    }

    pub fn unmap_fixed(&mut self, vaddr: u64) {
        if let Some(pos) = self.fixed.iter().position(|&a| a == vaddr) {
            self.fixed.swap_remove(pos);
            unsafe {
                libc::munmap(vaddr as *mut c_void, 4096);
            }
        }
    }

    /// Change the emulated CR3 (the root of the walks).
    #[allow(dead_code)]
    pub fn set_cr3(&mut self, cr3: u64) {
        unsafe {
            ST.cr3 = cr3;
        }
    }

    /// Arm / disarm the `mov r64, cr3` emulation; `value` is what the instruction reads.
    pub fn arm_cr3(&mut self, value: Option<u64>) {
        unsafe {
            match value {
                Some(v) => {
                    ST.cr3_armed = true;
                    ST.cr3_value = v;
                }
                None => ST.cr3_armed = false,
            }
        }
    }

    pub fn cr3_reads(&self) -> u64 {
        unsafe { ST.cr3_reads }
    }

    pub fn faults_total(&self) -> u64 {
        unsafe { ST.faults_total }
    }
}

impl Drop for SoftMmu {
    fn drop(&mut self) {
        end_call(0);
        unsafe {
            ST.active = false;
            ST.cr3_armed = false;
            for &a in &self.fixed {
                libc::munmap(a as *mut c_void, 4096);
            }
            if let Some(old) = OLD_ACTION.take() {
                libc::sigaction(libc::SIGSEGV, &old, core::ptr::null_mut());
            }
            ACC.clear();
        }
    }
}

/// "TLB flush": unmap everything the handler faulted in since the last flush and move the log
/// entries (tagged with `phase`) to the accumulated log of the current operation. A no-op when no
/// software MMU is installed.
pub fn end_call(phase: u8) {
    unsafe {
        if !ST.active {
            return;
        }
        for k in ST.flushed..ST.nlog {
            let mut f = ST.log[k];
            libc::munmap(f.vpage as *mut c_void, 4096);
            f.phase = phase;
            ACC.push(f);
        }
        ST.nlog = 0;
        ST.flushed = 0;
    }
}

/// The accumulated fault log since the last `take_log`, in order of occurrence.
pub fn take_log() -> Vec<Fault> {
    unsafe { core::mem::take(&mut ACC) }
}
