//! Deterministic, boundary-biased input generation. Every random choice derives from one
//! SplitMix64 state seeded by VERIF_SEED, so a run replays exactly.

pub struct Rng(pub u64);

impl Rng {
    pub fn new(seed: u64) -> Self {
        Rng(seed ^ 0x9e37_79b9_7f4a_7c15)
    }
    pub fn next(&mut self) -> u64 {
        self.0 = self.0.wrapping_add(0x9e37_79b9_7f4a_7c15);
        let mut z = self.0;
        z = (z ^ (z >> 30)).wrapping_mul(0xbf58_476d_1ce4_e5b9);
        z = (z ^ (z >> 27)).wrapping_mul(0x94d0_49bb_1331_11eb);
        z ^ (z >> 31)
    }
    pub fn below(&mut self, n: u64) -> u64 {
        if n == 0 {
            0
        } else {
            self.next() % n
        }
    }
    pub fn chance(&mut self, num: u64, den: u64) -> bool {
        self.below(den) < num
    }
    pub fn pick<T: Copy>(&mut self, xs: &[T]) -> T {
        xs[self.below(xs.len() as u64) as usize]
    }

    /// Exponents at which the code under test has boundaries.
    const EXPS: [u32; 16] = [0, 3, 9, 12, 16, 21, 30, 32, 39, 47, 48, 51, 52, 63, 64, 20];

    /// A boundary-biased 64-bit word: k * 2^j + d for small k, d in [-2, 2], or patterns, or uniform.
    pub fn word(&mut self) -> u64 {
        match self.below(10) {
            0 => self.next(),
            1 => {
                // sparse patterns
                self.pick(&[
                    0u64,
                    1,
                    u64::MAX,
                    u64::MAX - 1,
                    0x5555_5555_5555_5555,
                    0xaaaa_aaaa_aaaa_aaaa,
                    0x0000_7fff_ffff_ffff,
                    0x0000_8000_0000_0000,
                    0xffff_8000_0000_0000,
                    0xffff_7fff_ffff_ffff,
                    0x000f_ffff_ffff_ffff,
                    0x0010_0000_0000_0000,
                    0x000f_ffff_ffff_f000,
                    0xffff_ffff_ffff_f000,
                    0x0000_7fff_ffff_f000,
                ])
            }
            2 => self.below(0x3000), // small
            _ => {
                let j = self.pick(&Self::EXPS);
                let base: u64 = if j >= 64 { 0 } else { 1u64 << j };
                let k = match self.below(4) {
                    0 => 1,
                    1 => self.below(4),
                    2 => self.below(600),
                    _ => self.next() >> self.below(64),
                };
                let d = self.below(5) as i64 - 2;
                let d = if self.chance(1, 4) { d.wrapping_mul(4096) } else { d };
                base.wrapping_mul(k).wrapping_add(d as u64)
            }
        }
    }

    /// A canonical virtual address, boundary-biased (both halves, edges of the gap).
    pub fn canon(&mut self) -> u64 {
        let w = self.word();
        match self.below(8) {
            0 => 0x0000_7fff_ffff_ffff - self.below(0x3000),
            1 => 0xffff_8000_0000_0000 + self.below(0x3000),
            2 => 0xffff_ffff_ffff_ffff - self.below(0x3000),
            3 => self.below(0x3000),
            _ => (((w << 16) as i64) >> 16) as u64,
        }
    }

    /// A valid physical address (< 2^52), boundary-biased.
    pub fn phys(&mut self) -> u64 {
        match self.below(6) {
            0 => 0x000f_ffff_ffff_ffff - self.below(0x3000),
            1 => self.below(0x3000),
            _ => self.word() & 0x000f_ffff_ffff_ffff,
        }
    }

    /// A count/offset: small, near 2^k, or huge.
    pub fn count(&mut self) -> u64 {
        match self.below(6) {
            0 => self.below(4),
            1 => self.below(1000),
            _ => self.word(),
        }
    }

    pub fn page_size(&mut self) -> u64 {
        self.pick(&[4096u64, 1 << 21, 1 << 30])
    }
}

/// Classify a word for the input-distribution histogram.
pub fn classify(a: u64) -> &'static str {
    if a < 0x3000 {
        "tiny"
    } else if a < (1 << 47) {
        if a >= (1 << 47) - 0x3000 {
            "lower-top"
        } else {
            "lower"
        }
    } else if a >= 0xffff_8000_0000_0000 {
        if a < 0xffff_8000_0000_3000 {
            "upper-bottom"
        } else if a >= 0xffff_ffff_ffff_d000 {
            "upper-top"
        } else {
            "upper"
        }
    } else {
        "noncanonical"
    }
}
