//! Mapper histories (C01, C02, C09, C10, C11 token half): random operation histories against the
//! real mappers over simulated physical memory; after every call the observation (result, allocator
//! use, deallocations, changed words of the whole pool, probe translations) is printed.

use crate::gen::Rng;
use crate::out::{guard, Out};
use crate::physmem::{Pool, PoolMapping};
use crate::Tier;
use x86_64::structures::paging::mapper::{
    CleanUp, FlagUpdateError, MapToError, MappedFrame, MapperFlush, TranslateError, TranslateResult, UnmapError,
};
use x86_64::structures::paging::page::PageRangeInclusive;
use crate::softmmu::{self, SoftMmu};
use x86_64::structures::paging::{
    FrameAllocator, FrameDeallocator, MappedPageTable, Mapper, OffsetPageTable, Page, PageSize, PageTable,
    PageTableFlags, PageTableIndex, PhysFrame, RecursivePageTable, Size1GiB, Size2MiB, Size4KiB, Translate,
};
use x86_64::{PhysAddr, VirtAddr};

pub struct ScriptAlloc {
    pub answers: Vec<Option<u64>>,
    pub used: usize,
}

unsafe impl FrameAllocator<Size4KiB> for ScriptAlloc {
    fn allocate_frame(&mut self) -> Option<PhysFrame<Size4KiB>> {
        let r = self.answers.get(self.used).copied().flatten();
        self.used += 1;
        r.map(|a| PhysFrame::containing_address(PhysAddr::new(a)))
    }
}

pub struct RecDealloc(pub Vec<u64>);
impl FrameDeallocator<Size4KiB> for RecDealloc {
    unsafe fn deallocate_frame(&mut self, frame: PhysFrame<Size4KiB>) {
        self.0.push(frame.start_address().as_u64());
    }
}

#[derive(Clone, Copy, Debug)]
pub struct Op {
    pub opcode: u64,
    pub szc: u64,
    pub page: u64,
    pub frame: u64,
    pub flags: u64,
    pub pflags: u64,
}

pub trait AllMapper: Mapper<Size4KiB> + Mapper<Size2MiB> + Mapper<Size1GiB> + Translate + CleanUp {}
impl<T: Mapper<Size4KiB> + Mapper<Size2MiB> + Mapper<Size1GiB> + Translate + CleanUp> AllMapper for T {}

fn map_err<S: PageSize>(e: MapToError<S>) -> String {
    match e {
        MapToError::FrameAllocationFailed => "err 1".into(),
        MapToError::ParentEntryHugePage => "err 2".into(),
        MapToError::PageAlreadyMapped(f) => format!("err 3 {}", f.start_address().as_u64()),
    }
}
fn unmap_err(e: UnmapError) -> String {
    match e {
        UnmapError::PageNotMapped => "err 4".into(),
        UnmapError::ParentEntryHugePage => "err 2".into(),
        UnmapError::InvalidFrameAddress(a) => format!("err 5 {}", a.as_u64()),
    }
}
fn flag_err(e: FlagUpdateError) -> String {
    match e {
        FlagUpdateError::PageNotMapped => "err 4".into(),
        FlagUpdateError::ParentEntryHugePage => "err 2".into(),
    }
}
fn tr_err(e: TranslateError) -> String {
    match e {
        TranslateError::PageNotMapped => "err 4".into(),
        TranslateError::ParentEntryHugePage => "err 2".into(),
        TranslateError::InvalidFrameAddress(a) => format!("err 5 {}", a.as_u64()),
    }
}

fn flush_page<S: PageSize>(f: MapperFlush<S>) -> u64 {
    let p = f.page().start_address().as_u64();
    f.ignore();
    p
}

/// One operation for page size `S`.
fn sized_op<S: PageSize, M: Mapper<S> + CleanUp>(m: &mut M, op: &Op, alloc: &mut ScriptAlloc) -> String
where
    M: Sized,
{
    let page = Page::<S>::containing_address(VirtAddr::new(op.page));
    let frame = PhysFrame::<S>::containing_address(PhysAddr::new(op.frame));
    let flags = PageTableFlags::from_bits_truncate(op.flags);
    let pflags = PageTableFlags::from_bits_truncate(op.pflags);
    unsafe {
        match op.opcode {
            0 => match m.map_to_with_table_flags(page, frame, flags, pflags, alloc) {
                Ok(f) => format!("ok {}", flush_page(f)),
                Err(e) => map_err(e),
            },
            1 => match m.map_to(page, frame, flags, alloc) {
                Ok(f) => format!("ok {}", flush_page(f)),
                Err(e) => map_err(e),
            },
            2 => match m.identity_map(frame, flags, alloc) {
                Ok(f) => format!("ok {}", flush_page(f)),
                Err(e) => map_err(e),
            },
            3 => match m.unmap(page) {
                Ok((fr, f)) => format!("ok {} {}", flush_page(f), fr.start_address().as_u64()),
                Err(e) => unmap_err(e),
            },
            4 => match m.update_flags(page, flags) {
                Ok(f) => format!("ok {}", flush_page(f)),
                Err(e) => flag_err(e),
            },
            5 => match m.set_flags_p4_entry(page, flags) {
                Ok(f) => {
                    f.ignore();
                    "ok".into()
                }
                Err(e) => flag_err(e),
            },
            6 => match m.set_flags_p3_entry(page, flags) {
                Ok(f) => {
                    f.ignore();
                    "ok".into()
                }
                Err(e) => flag_err(e),
            },
            7 => match m.set_flags_p2_entry(page, flags) {
                Ok(f) => {
                    f.ignore();
                    "ok".into()
                }
                Err(e) => flag_err(e),
            },
            8 => match m.translate_page(page) {
                Ok(fr) => format!("ok {}", fr.start_address().as_u64()),
                Err(e) => tr_err(e),
            },
            _ => unreachable!(),
        }
    }
}

fn tp<S: PageSize, M: Mapper<S>>(m: &M, va: u64) -> String {
    let page = Page::<S>::containing_address(VirtAddr::new(va));
    let r = guard(|| m.translate_page(page));
    softmmu::end_call(1);
    match r {
        None => "9 0".into(),
        Some(Ok(f)) => format!("0 {}", f.start_address().as_u64()),
        Some(Err(TranslateError::PageNotMapped)) => "4 0".into(),
        Some(Err(TranslateError::ParentEntryHugePage)) => "2 0".into(),
        Some(Err(TranslateError::InvalidFrameAddress(a))) => format!("5 {}", a.as_u64()),
    }
}

fn probe<M: AllMapper>(m: &M, va: u64) -> String {
    let v = VirtAddr::new(va);
    let tr = guard(|| m.translate(v));
    softmmu::end_call(1);
    let t = match tr {
        None => "9 0 0 0 0".to_string(),
        Some(TranslateResult::NotMapped) => "0 0 0 0 0".into(),
        Some(TranslateResult::InvalidFrameAddress(a)) => format!("2 {} 0 0 0", a.as_u64()),
        Some(TranslateResult::Mapped { frame, offset, flags }) => {
            let (fa, sz) = match frame {
                MappedFrame::Size4KiB(f) => (f.start_address().as_u64(), 4096u64),
                MappedFrame::Size2MiB(f) => (f.start_address().as_u64(), 1 << 21),
                MappedFrame::Size1GiB(f) => (f.start_address().as_u64(), 1 << 30),
            };
            format!("1 {} {} {} {}", fa, sz, offset, flags.bits())
        }
    };
    let tar = guard(|| m.translate_addr(v));
    softmmu::end_call(1);
    let ta = match tar {
        None => "9 0".to_string(),
        Some(None) => "0 0".into(),
        Some(Some(pa)) => format!("1 {}", pa.as_u64()),
    };
    format!("{} {} {} {} {}", t, ta, tp::<Size4KiB, M>(m, va), tp::<Size2MiB, M>(m, va), tp::<Size1GiB, M>(m, va))
}

/// Execute one op on a freshly constructed mapper and produce the observation string.
pub fn observe<M: AllMapper>(
    m: &mut M,
    op: &Op,
    alloc: &mut ScriptAlloc,
    probes: &[u64],
    diff: &mut dyn FnMut() -> Vec<(u64, u64, u64)>,
) -> String {
    let mut dealloc = RecDealloc(Vec::new());
    let res = guard(|| match op.opcode {
        9 => {
            unsafe { m.clean_up(&mut dealloc) };
            "ok".to_string()
        }
        10 => {
            let range = PageRangeInclusive {
                start: Page::<Size4KiB>::containing_address(VirtAddr::new(op.page)),
                end: Page::<Size4KiB>::containing_address(VirtAddr::new(op.frame)),
            };
            unsafe { m.clean_up_addr_range(range, &mut dealloc) };
            "ok".to_string()
        }
        _ => match op.szc {
            0 => sized_op::<Size4KiB, M>(m, op, alloc),
            1 => sized_op::<Size2MiB, M>(m, op, alloc),
            _ => sized_op::<Size1GiB, M>(m, op, alloc),
        },
    })
    .unwrap_or_else(|| "panic".to_string());
    // software MMU (recursive mapper only): drop every page faulted in by the call ("TLB flush")
    softmmu::end_call(0);
    let changes = diff();
    let mut s = format!("R {} A {} D {}", res, alloc.used, dealloc.0.len());
    for f in &dealloc.0 {
        s.push_str(&format!(" {}", f));
    }
    s.push_str(&format!(" W {}", changes.len()));
    for (f, i, v) in &changes {
        s.push_str(&format!(" {} {} {}", f, i, v));
    }
    s.push_str(&format!(" P {}", probes.len()));
    for &va in probes {
        s.push(' ');
        s.push_str(&probe(m, va));
    }
    s
}

// ------------------------------------------------------------------------------------------------
// history generation

const LEAF_BITS_4K: [u32; 22] = [1, 2, 3, 4, 5, 6, 7, 8, 9, 10, 11, 52, 53, 54, 55, 56, 57, 58, 59, 60, 62, 63];
const PARENT_BITS: [u32; 20] = [1, 2, 3, 4, 5, 6, 8, 9, 10, 11, 52, 53, 54, 55, 56, 57, 58, 59, 61, 63];

fn rand_bits(rng: &mut Rng, bits: &[u32]) -> u64 {
    let mut v = 0u64;
    match rng.below(4) {
        0 => {}
        1 => {
            for &b in bits {
                v |= 1 << b;
            }
        }
        _ => {
            for &b in bits {
                if rng.chance(1, 3) {
                    v |= 1 << b;
                }
            }
        }
    }
    // writable / user are the interesting ones for effective rights
    if rng.chance(1, 2) {
        v |= 2;
    }
    if rng.chance(1, 3) {
        v |= 4;
    }
    v
}

pub fn leaf_flags(rng: &mut Rng, szc: u64) -> u64 {
    let mut v = 1 | rand_bits(rng, &LEAF_BITS_4K);
    // A leaf without PRESENT (a swapped-out / reserved page: the slot is occupied, the address is not mapped).
    // `map_to` and `update_flags` accept such flags; translation, unmap and the hardware see "not mapped", while
    // the slot still counts as used (PageAlreadyMapped, and its table is not empty for clean_up).
    if rng.chance(1, 10) {
        v &= !1;
        if v == 0 {
            v = 2; // an all-zero entry (frame 0, no flags) is the encoding of "unused": nothing to observe
        }
    }
    if szc != 0 {
        v &= !(1 << 7); // HUGE is added by the mapper; bit 12 is the PAT bit of huge leaves
        if rng.chance(1, 4) {
            v |= 1 << 12;
        }
    }
    v
}

pub fn parent_flags(rng: &mut Rng) -> u64 {
    1 | rand_bits(rng, &PARENT_BITS)
}

pub fn size_of(szc: u64) -> u64 {
    match szc {
        0 => 4096,
        1 => 1 << 21,
        _ => 1 << 30,
    }
}

fn sign_extend(a: u64) -> u64 {
    (((a << 16) as i64) >> 16) as u64
}

pub struct Universe {
    pub p4_indices: Vec<u64>,
}

pub fn rand_page(rng: &mut Rng, uni: &Universe, szc: u64) -> u64 {
    let low = [0u64, 1, 511];
    let i4 = rng.pick(&uni.p4_indices);
    let pick = |rng: &mut Rng| if rng.chance(5, 6) { rng.pick(&low) } else { rng.below(512) };
    let i3 = pick(rng);
    let i2 = if szc <= 1 { pick(rng) } else { 0 };
    let i1 = if szc == 0 { pick(rng) } else { 0 };
    sign_extend((i4 << 39) | (i3 << 30) | (i2 << 21) | (i1 << 12))
}

pub fn rand_frame(rng: &mut Rng, szc: u64, canaries: &[u64]) -> u64 {
    let sz = size_of(szc);
    let a = match rng.below(6) {
        0 if szc == 0 && !canaries.is_empty() => rng.pick(canaries),
        1 => 0x000f_ffff_ffff_ffff, // last frame
        2 => rng.below(8) * sz,
        3 => (1u64 << 30) * rng.below(4) + (1 << 21) * rng.below(4) + 4096 * rng.below(4),
        _ => rng.phys(),
    };
    a & !(sz - 1) & 0x000f_ffff_ffff_ffff
}

pub struct History {
    pub pages: Vec<(u64, u64)>, // (page, szc) used so far
}

pub fn gen_op(rng: &mut Rng, uni: &Universe, hist: &mut History, canaries: &[u64]) -> Op {
    let szc = rng.below(3);
    // reuse an earlier page (same or different size) half of the time
    let (page, szc) = if !hist.pages.is_empty() && rng.chance(1, 2) {
        let (p, s) = rng.pick(&hist.pages);
        if rng.chance(2, 3) {
            (p, s)
        } else {
            let s2 = rng.below(3);
            (p & !(size_of(s2) - 1), s2)
        }
    } else {
        (rand_page(rng, uni, szc), szc)
    };
    let opcode = match rng.below(20) {
        0..=5 => 0,
        6 | 7 => 1,
        8 => 2,
        9..=11 => 3,
        12 | 13 => 4,
        14 => 5,
        15 => 6,
        16 => 7,
        17 => 8,
        18 => 9,
        _ => 10,
    };
    let mut op = Op { opcode, szc, page, frame: 0, flags: 0, pflags: 0 };
    match opcode {
        0 | 1 => {
            op.frame = rand_frame(rng, szc, canaries);
            op.flags = leaf_flags(rng, szc);
            op.pflags = if opcode == 0 { parent_flags(rng) } else { 0 };
            hist.pages.push((page, szc));
        }
        2 => {
            // identity map: the page is the frame address; keep it inside the universe's P4 slots
            let p = if rng.chance(1, 2) { page } else { rand_page(rng, uni, szc) };
            let f = p & 0x0000_7fff_ffff_ffff & !(size_of(szc) - 1);
            op.frame = f;
            op.page = f;
            op.flags = leaf_flags(rng, szc);
            hist.pages.push((f, szc));
        }
        4 => op.flags = leaf_flags(rng, szc),
        5 | 6 | 7 => op.flags = parent_flags(rng),
        10 => {
            // range: around known pages, table-aligned or not, possibly spanning the gap / to the last page
            let a = op.page & !0xfff;
            let (s, e) = match rng.below(8) {
                0 => (a, a),
                1 => (a & !((1 << 21) - 1), (a & !((1 << 21) - 1)).wrapping_add((1 << 21) - 4096)),
                2 => (a & !((1 << 30) - 1), (a & !((1 << 30) - 1)).wrapping_add((1 << 30) - 4096)),
                3 => (a & !((1 << 39) - 1), sign_extend((a & !((1u64 << 39) - 1)).wrapping_add((1 << 39) - 4096))),
                4 => (0, 0xffff_ffff_ffff_f000),
                5 => (a, 0xffff_ffff_ffff_f000),
                6 => (a.wrapping_add(4096), a), // empty
                _ => {
                    let b = rand_page(rng, uni, 0);
                    (a.min(b), a.max(b))
                }
            };
            op.page = sign_extend(s) & !0xfff;
            op.frame = sign_extend(e) & !0xfff;
            op.szc = 0;
        }
        _ => {}
    }
    op
}

pub fn gen_probes(rng: &mut Rng, op: &Op, hist: &History) -> Vec<u64> {
    let sz = size_of(op.szc);
    let mut v = Vec::new();
    let base = if op.opcode == 2 { op.frame } else { op.page };
    let cand = [
        base,
        base.wrapping_add(sz - 1),
        base.wrapping_sub(1),
        base.wrapping_add(sz),
        base.wrapping_add(rng.below(sz)),
        (base & !((1 << 21) - 1)).wrapping_add(rng.below(1 << 21)),
        (base & !((1 << 30) - 1)).wrapping_add(rng.below(1 << 30)),
    ];
    for c in cand {
        if sign_extend(c) == c {
            v.push(c);
        }
    }
    for _ in 0..3 {
        if !hist.pages.is_empty() {
            let (p, s) = rng.pick(&hist.pages);
            let c = p.wrapping_add(rng.below(size_of(s)));
            if sign_extend(c) == c {
                v.push(c);
            }
        }
    }
    v
}

/// Physical addresses for the pool slots: slot 0 = P4; table frames at small, 2 MiB-aligned,
/// 1 GiB-aligned and very high addresses (incl. addresses with bits 12/21/30 set); the last slots
/// are canary data frames and the foreign page.
pub fn pool_layout(rng: &mut Rng, n: usize, contiguous_base: Option<u64>) -> Vec<u64> {
    let mut v: Vec<u64> = Vec::new();
    if let Some(b) = contiguous_base {
        for k in 0..n {
            v.push(b + 4096 * k as u64);
        }
        return v;
    }
    let mut used = std::collections::HashSet::new();
    while v.len() < n {
        let a = match rng.below(7) {
            0 => 0x10_0000 + 4096 * rng.below(4096),
            1 => (1u64 << 21) * (1 + rng.below(64)),
            2 => (1u64 << 30) * (1 + rng.below(16)),
            3 => 0x000f_ffff_ffff_f000 - 4096 * rng.below(64),
            4 => (1u64 << 30) * rng.below(8) + (1 << 21) * rng.below(8) + (1 << 12) * (1 + rng.below(7)),
            _ => rng.phys() & !0xfff,
        };
        if a != 0 && used.insert(a) {
            v.push(a);
        }
    }
    v
}

#[derive(Clone, Copy, PartialEq, Debug)]
pub enum MapperKind {
    Mapped,
    Offset,
    /// `RecursivePageTable` with this recursive index, through the software MMU
    Recursive(u64),
}

impl MapperKind {
    pub fn code(self) -> u64 {
        match self {
            MapperKind::Mapped => 0,
            MapperKind::Offset => 1,
            MapperKind::Recursive(_) => 2,
        }
    }
    pub fn rec_index(self) -> Option<u64> {
        match self {
            MapperKind::Recursive(r) => Some(r),
            _ => None,
        }
    }
}

/// Frames that are page tables of the hierarchy rooted at pool slot 0, read from the pool
/// (present, non-huge entries at levels 4..2; the harness' own view, the driver recomputes it).
pub fn table_frames(pool: &Pool, rec: Option<u64>) -> std::collections::HashSet<u64> {
    let mut set = std::collections::HashSet::new();
    set.insert(pool.phys[0]);
    let mut level_tables = vec![0usize];
    for level in (2..=4).rev() {
        let mut next = Vec::new();
        for &slot in &level_tables {
            for i in 0..512usize {
                if level == 4 && rec == Some(i as u64) {
                    continue;
                }
                let e = pool.peek(slot, i);
                if e & 1 != 0 && e & 0x80 == 0 {
                    let f = e & 0x000f_ffff_ffff_f000;
                    if set.insert(f) {
                        if let Some(&k) = pool.slot_of.get(&f) {
                            next.push(k);
                        }
                    }
                }
            }
        }
        level_tables = next;
    }
    set
}

/// One history's execution environment: the pool, the mapper kind and (recursive kind) the
/// installed software MMU with the P4 frame mapped at its recursive address.
pub struct Env {
    pub kind: MapperKind,
    pub pool: Pool,
    pub foreign: usize,
    pub base_phys: u64,
    pub mmu: Option<SoftMmu>,
}

impl Env {
    /// Build the pool (P4 = slot 0, zeroed) and emit `mh_begin`. For the recursive kind the P4
    /// frame gets `P4[R] = p4 | PRESENT | WRITABLE` (reported to the driver as an initial word), is
    /// mapped at (R,R,R,R), and the SIGSEGV handler is installed with CR3 = p4.
    pub fn begin(out: &mut Out, kind: MapperKind, phys: Vec<u64>, seed: u64, base_phys: u64, mask: u64) -> Env {
        let npool = phys.len();
        let mut pool = Pool::new(phys, seed);
        pool.zero_frame(0);
        let p4_phys = pool.phys[0];
        let foreign = npool - 1;
        // The foreign page stands in for every frame outside the pool, in particular for the data frames of
        // most huge pages. No correct mapper operation reads it; in every other history it is all zero, so that
        // code which wrongly takes a mapped data frame for a page table sees an "empty table" (and frees it /
        // unlinks it: visible to the C10 and C01 oracles) rather than garbage entries.
        if seed % 2 == 0 {
            pool.zero_frame(foreign);
        }
        let mut mmu = None;
        let mut args = vec![mask, kind.code(), kind.rec_index().unwrap_or(0), p4_phys, seed];
        if let MapperKind::Recursive(r) = kind {
            let e = p4_phys | 3;
            pool.poke(0, r as usize, e);
            args.extend_from_slice(&[1, p4_phys, r, e]);
            let mut m = SoftMmu::install(&pool, foreign, r, p4_phys);
            assert!(m.map_fixed(0, softmmu::recursive_p4_addr(r)), "cannot map the P4 frame at its recursive address");
            mmu = Some(m);
        } else {
            args.push(0);
        }
        out.emit("mh_begin", &args, "-", false);
        Env { kind, pool, foreign, base_phys, mmu }
    }

    /// Run one operation and emit `mh_op` (and `mh_mmu` for the recursive kind). Returns the observation.
    pub fn step(&mut self, out: &mut Out, op: &Op, answers: &[Option<u64>], probes: &[u64]) -> (String, usize) {
        let mut alloc = ScriptAlloc { answers: answers.to_vec(), used: 0 };
        let pre_tables = if self.mmu.is_some() { table_frames(&self.pool, self.kind.rec_index()) } else { Default::default() };
        let poolptr: *mut Pool = &mut self.pool;
        let mut diff = || unsafe { (*poolptr).diff() };
        out.flush();
        crate::crash::arm(&format!("mh_crash {} {} {} {} {} {} => crash", op.opcode, op.szc, op.page, op.frame, op.flags, op.pflags));
        let obs = match self.kind {
            MapperKind::Mapped => {
                let p4ref: &mut PageTable = unsafe { &mut *self.pool.frame_ptr(0) };
                let mapping = PoolMapping { base: self.pool.base, slot_of: self.pool.slot_of.clone(), foreign_slot: self.foreign };
                let mut m = unsafe { MappedPageTable::new(p4ref, mapping) };
                observe(&mut m, op, &mut alloc, probes, &mut diff)
            }
            MapperKind::Offset => {
                let p4ref: &mut PageTable = unsafe { &mut *self.pool.frame_ptr(0) };
                let offset = VirtAddr::new(self.pool.base as u64 - self.base_phys);
                let mut m = unsafe { OffsetPageTable::new(p4ref, offset) };
                observe(&mut m, op, &mut alloc, probes, &mut diff)
            }
            MapperKind::Recursive(r) => {
                // `RecursivePageTable::new` reads CR3 (checked in C20); the histories use `new_unchecked`
                let p4ref: &mut PageTable = unsafe { &mut *(softmmu::recursive_p4_addr(r) as *mut PageTable) };
                let mut m = unsafe { RecursivePageTable::new_unchecked(p4ref, PageTableIndex::new(r as u16)) };
                observe(&mut m, op, &mut alloc, probes, &mut diff)
            }
        };
        crate::crash::disarm();
        let mut args = vec![op.opcode, op.szc, op.page, op.frame, op.flags, op.pflags, answers.len() as u64];
        for a in answers {
            args.push(a.unwrap_or(0));
        }
        args.push(probes.len() as u64);
        args.extend_from_slice(probes);
        out.emit("mh_op", &args, &obs, true);
        if self.mmu.is_some() {
            // the software-MMU log of this operation: (virtual page, frame reached, harness' view of
            // "is a page table of the hierarchy before or after the call", walk kind + 4 * phase)
            let post_tables = table_frames(&self.pool, self.kind.rec_index());
            let log = softmmu::take_log();
            let mut seen = std::collections::HashSet::new();
            let mut margs: Vec<u64> = vec![0];
            let mut n = 0u64;
            for f in &log {
                if !seen.insert((f.vpage, f.frame, f.kind, f.phase)) {
                    continue;
                }
                let is_table = f.kind == softmmu::KIND_TABLE_WALK && (pre_tables.contains(&f.frame) || post_tables.contains(&f.frame));
                margs.extend_from_slice(&[f.vpage, f.frame, is_table as u64, f.kind as u64 + 4 * f.phase as u64]);
                n += 1;
                out.input_class(match (f.kind, is_table) {
                    (softmmu::KIND_TABLE_WALK, true) => "mmu:reached-table",
                    (softmmu::KIND_TABLE_WALK, false) => "mmu:reached-non-table-frame",
                    (softmmu::KIND_HUGE, _) => "mmu:reached-huge-data-frame",
                    _ => "mmu:not-present",
                });
            }
            margs[0] = n;
            out.emit("mh_mmu", &margs, "-", n != 0);
        }
        (obs, alloc.used)
    }
}

fn p4_index(a: u64) -> u64 {
    (a >> 39) & 511
}

/// Does the operation name a page under the recursive slot (outside the mapper's contract)?
fn op_touches_slot(op: &Op, r: u64) -> bool {
    match op.opcode {
        9 | 10 => false, // clean-up ranges may span the slot: the code skips it
        2 => p4_index(op.frame) == r || p4_index(op.page) == r,
        _ => p4_index(op.page) == r,
    }
}

/// Recursive indices tried for the recursive kind, in order of preference after the random draw.
/// 255 cannot work in a Linux process (the page (255,255,255,255) is the last user page, which the
/// kernel never maps, and the stack lives in that slot); 254 usually holds the shared libraries.
const REC_CANDIDATES: [u64; 5] = [1, 2, 100, 254, 255];
const REC_FALLBACKS: [u64; 4] = [200, 128, 3, 253];

pub fn pick_rec_index(out: &mut Out, rng: &mut Rng) -> u64 {
    let first = rng.pick(&REC_CANDIDATES);
    if softmmu::slot_usable(first) {
        return first;
    }
    out.input_class(&format!("recursive-index-{}-not-usable-in-this-process", first));
    for &r in REC_FALLBACKS.iter().chain(REC_CANDIDATES.iter()) {
        if softmmu::slot_usable(r) {
            return r;
        }
    }
    panic!("no usable recursive index");
}

fn op_name(opcode: u64) -> &'static str {
    match opcode {
        0 => "map_to_with_table_flags",
        1 => "map_to",
        2 => "identity_map",
        3 => "unmap",
        4 => "update_flags",
        5 => "set_flags_p4",
        6 => "set_flags_p3",
        7 => "set_flags_p2",
        8 => "translate_page",
        9 => "clean_up",
        _ => "clean_up_addr_range",
    }
}

pub fn run_histories(out: &mut Out, rng: &mut Rng, tier: Tier, mask: u64) {
    let nhist = tier.n(120, 1200);
    let nops = tier.n(60, 300);
    // VERIF_MAPPER_KINDS=<codes, e.g. "2" or "0,1">: restrict the generated histories to these mapper kinds
    // (focused runs; the default is all three, one third each)
    let kinds: Vec<u64> = std::env::var("VERIF_MAPPER_KINDS")
        .ok()
        .map(|v| v.split(',').filter_map(|x| x.trim().parse().ok()).collect())
        .unwrap_or_else(|| vec![0, 1, 2]);
    for h in 0..nhist {
        let kind = match h % 3 {
            0 => MapperKind::Mapped,
            1 => MapperKind::Offset,
            _ => MapperKind::Recursive(0),
        };
        if !kinds.contains(&kind.code()) {
            continue;
        }
        let kind = match kind {
            MapperKind::Recursive(_) => MapperKind::Recursive(pick_rec_index(out, rng)),
            k => k,
        };
        let npool = 96usize;
        let seed = rng.next();
        let base_phys = match rng.below(3) {
            0 => 0x4000_0000u64,
            1 => 0x20_0000,
            _ => 0x1_0000_1000,
        };
        let phys = match kind {
            MapperKind::Offset => pool_layout(rng, npool, Some(base_phys)),
            _ => pool_layout(rng, npool, None),
        };
        // the last 8 slots before the foreign page are canary data frames: never handed to the allocator
        let canaries: Vec<u64> = phys[npool - 9..npool - 1].to_vec();
        let mut free: Vec<u64> = phys[1..npool - 9].to_vec();
        // pages under the recursive slot are outside the recursive mapper's contract
        let mut p4s: Vec<u64> = vec![0, 1, 255, 256, 511];
        if let MapperKind::Recursive(r) = kind {
            p4s.retain(|&i| i != r);
            for n in [r.wrapping_sub(1) & 511, (r + 1) & 511] {
                if !p4s.contains(&n) {
                    p4s.push(n); // neighbours of the recursive slot
                }
            }
            out.input_class(&format!("recursive-index:{}", r));
        }
        let uni = Universe { p4_indices: p4s };
        let mut hist = History { pages: Vec::new() };
        let mut env = Env::begin(out, kind, phys, seed, base_phys, mask);
        out.input_class(&format!("history:{:?}", match kind { MapperKind::Recursive(_) => MapperKind::Recursive(0), k => k }));
        // a clean-up call is repeated immediately every other time (idempotence: the second run must free nothing)
        let mut repeat: Option<Op> = None;
        // forced continuation of a "disabled parent" window (see below)
        let mut window: std::collections::VecDeque<Op> = std::collections::VecDeque::new();
        for _ in 0..nops {
            let repeated = repeat.is_some();
            let forced = repeat.is_none() && !window.is_empty();
            let mut op = match repeat.take() {
                Some(o) => o,
                None => match window.pop_front() {
                    Some(o) => o,
                    None => gen_op(rng, &uni, &mut hist, &canaries),
                },
            };
            if op.opcode >= 9 && !repeated && rng.chance(1, 2) {
                repeat = Some(Op { opcode: op.opcode, szc: op.szc, page: op.page, frame: op.frame, flags: op.flags, pflags: op.pflags });
            }
            if let MapperKind::Recursive(r) = kind {
                while op_touches_slot(&op, r) {
                    op = gen_op(rng, &uni, &mut hist, &canaries);
                }
                hist.pages.retain(|&(p, _)| p4_index(p) != r);
            }
            // Disabled-parent window: every fourth parent-flag call takes PRESENT away from the parent entry (a region
            // switched off temporarily - the entry stays non-zero, everything below it becomes unreachable), is followed
            // by one or two clean-up calls (which must neither free nor unlink the table holding that entry, nor the
            // subtree below it) and by the same call with PRESENT again. No other operation runs inside the window:
            // mapping below a non-present parent is outside the documented states.
            // (Not for the recursive mapper: it reaches a table *through* its parent entries, so a non-present parent
            // is a page fault on real hardware - outside its contract.)
            if (5..=7).contains(&op.opcode) && !forced && !repeated && !matches!(kind, MapperKind::Recursive(_)) && rng.chance(1, 4) {
                let restore = Op { opcode: op.opcode, szc: op.szc, page: op.page, frame: 0, flags: op.flags | 1, pflags: 0 };
                op.flags &= !1;
                if op.flags == 0 {
                    op.flags = 2;
                }
                let cu = if rng.chance(1, 2) {
                    Op { opcode: 9, szc: 0, page: 0, frame: 0, flags: 0, pflags: 0 }
                } else {
                    let a = op.page & !0xfff;
                    let (s, e) = match rng.below(3) {
                        0 => (a & !((1 << 30) - 1), (a & !((1 << 30) - 1)).wrapping_add((1 << 30) - 4096)),
                        1 => (a & !((1 << 39) - 1), sign_extend((a & !((1u64 << 39) - 1)).wrapping_add((1 << 39) - 4096))),
                        _ => (a, a),
                    };
                    Op { opcode: 10, szc: 0, page: sign_extend(s) & !0xfff, frame: sign_extend(e) & !0xfff, flags: 0, pflags: 0 }
                };
                out.input_class("window:parent-not-present");
                // In a third of the windows a `map_to` of a 4 KiB page *through* the switched-off entry comes first: its
                // parent flags contain PRESENT, so the walk switches the entry on again and must reuse the table behind
                // it (no frame requested for that level, nothing orphaned) - the documented way out of such a state.
                if rng.chance(1, 3) {
                    let base = op.page & !0x1f_ffff;
                    let pg = sign_extend(base.wrapping_add(rng.below(512) * 4096)) & !0xfff;
                    let m = Op { opcode: 1, szc: 0, page: pg, frame: rand_frame(rng, 0, &canaries), flags: leaf_flags(rng, 0) | 1, pflags: 0 };
                    hist.pages.push((pg, 0));
                    out.input_class("window:map-through-disabled-parent");
                    window.push_back(m);
                }
                window.push_back(cu);
                window.push_back(restore);
            }
            // allocator script: up to 3 answers, fresh frames in random order, failures injected
            let mut answers: Vec<Option<u64>> = Vec::new();
            let fail_at = if rng.chance(1, 6) { rng.below(4) } else { 99 };
            for k in 0..3u64 {
                if k >= fail_at || free.is_empty() {
                    answers.push(None);
                } else {
                    let idx = rng.below(free.len() as u64) as usize;
                    answers.push(Some(free.swap_remove(idx)));
                }
            }
            let mut probes = gen_probes(rng, &op, &hist);
            if let MapperKind::Recursive(r) = kind {
                probes.retain(|&va| p4_index(va) != r);
            }
            let (obs, used) = env.step(out, &op, &answers, &probes);
            // unused answers go back to the free list; deallocated frames are recycled
            for a in answers.iter().skip(used.min(3)).flatten() {
                free.push(*a);
            }
            let toks: Vec<&str> = obs.split(' ').collect();
            if let Some(dpos) = toks.iter().position(|t| *t == "D") {
                let n: usize = toks[dpos + 1].parse().unwrap_or(0);
                for t in &toks[dpos + 2..dpos + 2 + n] {
                    if let Ok(f) = t.parse::<u64>() {
                        if !free.contains(&f) {
                            free.push(f);
                        }
                    }
                }
            }
            out.input_class(op_name(op.opcode));
            let restoks: Vec<&str> = obs.split(' ').take(3).collect();
            let rc = if restoks[1] == "err" { format!("err{}", restoks[2]) } else { restoks[1].to_string() };
            out.input_class(&format!("result:op{}:sz{}:{}", op.opcode, op.szc, rc));
        }
        if let Some(m) = &env.mmu {
            out.notes.insert("softmmu_faults_total".into(), format!("{}", m.faults_total()));
        }
    }
}

/// Replay hand-written histories (`corpus/<id>/*.ops`): minimised past failures and witnesses of
/// the defects recorded in KNOWN_FINDINGS.txt. Format, one item per line:
///   begin <kind: 0 mapped | 1 offset | 2 recursive> [<recursive index R> [<physical base of the pool>]]
///      (the pool is 64 contiguous frames from the base, default 0x4000_0000; slot 0 = P4, slot 63 = foreign page)
///   op <opcode> <szcode> <page> <frame> <flags> <pflags> <s1> <s2> <s3>   (allocator answers as pool
///      slot numbers, 0 = None; numbers may be written in hex with 0x)
pub fn run_corpus(out: &mut Out, path: &str, mask: u64) {
    let text = match std::fs::read_to_string(path) {
        Ok(t) => t,
        Err(_) => return,
    };
    let num = |t: &str| -> u64 {
        if let Some(h) = t.strip_prefix("0x") {
            u64::from_str_radix(&h.replace('_', ""), 16).unwrap()
        } else {
            t.replace('_', "").parse().unwrap()
        }
    };
    let mut rng = Rng::new(7);
    let npool = 64usize;
    let mut base_phys = 0x4000_0000u64;
    let mut phys = pool_layout(&mut rng, npool, Some(base_phys));
    let seed = 12345u64;
    let mut env: Option<Env> = None;
    let mut hist = History { pages: Vec::new() };
    for line in text.lines() {
        let line = line.split('#').next().unwrap().trim();
        if line.is_empty() {
            continue;
        }
        let t: Vec<&str> = line.split_whitespace().collect();
        match t[0] {
            "begin" => {
                drop(env.take()); // drops the previous pool / software MMU first
                let kind = match num(t[1]) {
                    0 => MapperKind::Mapped,
                    1 => MapperKind::Offset,
                    _ => {
                        let r = t.get(2).map(|x| num(x)).unwrap_or(1);
                        if !softmmu::slot_usable(r) {
                            out.input_class(&format!("corpus-recursive-index-{}-not-usable", r));
                            MapperKind::Recursive(REC_FALLBACKS.iter().copied().find(|&x| softmmu::slot_usable(x)).expect("no usable recursive index"))
                        } else {
                            MapperKind::Recursive(r)
                        }
                    }
                };
                hist = History { pages: Vec::new() };
                base_phys = t.get(3).map(|x| num(x)).unwrap_or(0x4000_0000);
                phys = pool_layout(&mut rng, npool, Some(base_phys));
                env = Some(Env::begin(out, kind, phys.clone(), seed, base_phys, mask));
            }
            "op" => {
                let env = env.as_mut().expect("op before begin");
                let op = Op { opcode: num(t[1]), szc: num(t[2]), page: num(t[3]), frame: num(t[4]), flags: num(t[5]), pflags: num(t[6]) };
                let answers: Vec<Option<u64>> =
                    (7..10).map(|k| t.get(k).map(|x| num(x)).filter(|&s| s != 0).map(|s| phys[s as usize])).collect();
                hist.pages.push((if op.opcode == 2 { op.frame } else { op.page }, op.szc));
                let mut probes = gen_probes(&mut rng, &op, &hist);
                if let MapperKind::Recursive(r) = env.kind {
                    probes.retain(|&va| p4_index(va) != r);
                }
                env.step(out, &op, &answers, &probes);
            }
            _ => panic!("bad corpus line: {}", line),
        }
    }
}

/// All corpus files of a property directory, in name order.
pub fn run_corpus_dir(out: &mut Out, dir: &str, mask: u64) {
    let mut files: Vec<String> = match std::fs::read_dir(dir) {
        Ok(rd) => rd.filter_map(|e| e.ok()).map(|e| e.path().to_string_lossy().to_string()).filter(|p| p.ends_with(".ops")).collect(),
        Err(_) => return,
    };
    files.sort();
    for f in files {
        run_corpus(out, &f, mask);
    }
}
