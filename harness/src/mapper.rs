//! Mapper histories (C01, C02, C09, C10, C11 token half): random operation histories against the
//! real mappers over simulated physical memory; after every call the observation (result, allocator
//! use, deallocations, changed words of the whole pool, probe translations) is printed.

use crate::gen::Rng;
use crate::out::{guard, Out};
use crate::physmem::{Pool, PoolMapping};
use crate::Tier;
use x86_64::structures::paging::mapper::{
    CleanUp, FlagUpdateError, MapToError, MappedFrame, MapperFlush, TranslateError, TranslateResult, UnmapError,
};
use x86_64::structures::paging::page::PageRangeInclusive;
use x86_64::structures::paging::{
    FrameAllocator, FrameDeallocator, MappedPageTable, Mapper, OffsetPageTable, Page, PageSize, PageTable,
    PageTableFlags, PhysFrame, Size1GiB, Size2MiB, Size4KiB, Translate,
};
use x86_64::{PhysAddr, VirtAddr};

pub struct ScriptAlloc {
    pub answers: Vec<Option<u64>>,
    pub used: usize,
}

unsafe impl FrameAllocator<Size4KiB> for ScriptAlloc {
    fn allocate_frame(&mut self) -> Option<PhysFrame<Size4KiB>> {
        let r = self.answers.get(self.used).copied().flatten();
        self.used += 1;
        r.map(|a| PhysFrame::containing_address(PhysAddr::new(a)))
    }
}

pub struct RecDealloc(pub Vec<u64>);
impl FrameDeallocator<Size4KiB> for RecDealloc {
    unsafe fn deallocate_frame(&mut self, frame: PhysFrame<Size4KiB>) {
        self.0.push(frame.start_address().as_u64());
    }
}

#[derive(Clone, Copy, Debug)]
pub struct Op {
    pub opcode: u64,
    pub szc: u64,
    pub page: u64,
    pub frame: u64,
    pub flags: u64,
    pub pflags: u64,
}

pub trait AllMapper: Mapper<Size4KiB> + Mapper<Size2MiB> + Mapper<Size1GiB> + Translate + CleanUp {}
impl<T: Mapper<Size4KiB> + Mapper<Size2MiB> + Mapper<Size1GiB> + Translate + CleanUp> AllMapper for T {}

fn map_err<S: PageSize>(e: MapToError<S>) -> String {
    match e {
        MapToError::FrameAllocationFailed => "err 1".into(),
        MapToError::ParentEntryHugePage => "err 2".into(),
        MapToError::PageAlreadyMapped(f) => format!("err 3 {}", f.start_address().as_u64()),
    }
}
fn unmap_err(e: UnmapError) -> String {
    match e {
        UnmapError::PageNotMapped => "err 4".into(),
        UnmapError::ParentEntryHugePage => "err 2".into(),
        UnmapError::InvalidFrameAddress(a) => format!("err 5 {}", a.as_u64()),
    }
}
fn flag_err(e: FlagUpdateError) -> String {
    match e {
        FlagUpdateError::PageNotMapped => "err 4".into(),
        FlagUpdateError::ParentEntryHugePage => "err 2".into(),
    }
}
fn tr_err(e: TranslateError) -> String {
    match e {
        TranslateError::PageNotMapped => "err 4".into(),
        TranslateError::ParentEntryHugePage => "err 2".into(),
        TranslateError::InvalidFrameAddress(a) => format!("err 5 {}", a.as_u64()),
    }
}

fn flush_page<S: PageSize>(f: MapperFlush<S>) -> u64 {
    let p = f.page().start_address().as_u64();
    f.ignore();
    p
}

/// One operation for page size `S`.
fn sized_op<S: PageSize, M: Mapper<S> + CleanUp>(m: &mut M, op: &Op, alloc: &mut ScriptAlloc) -> String
where
    M: Sized,
{
    let page = Page::<S>::containing_address(VirtAddr::new(op.page));
    let frame = PhysFrame::<S>::containing_address(PhysAddr::new(op.frame));
    let flags = PageTableFlags::from_bits_truncate(op.flags);
    let pflags = PageTableFlags::from_bits_truncate(op.pflags);
    unsafe {
        match op.opcode {
            0 => match m.map_to_with_table_flags(page, frame, flags, pflags, alloc) {
                Ok(f) => format!("ok {}", flush_page(f)),
                Err(e) => map_err(e),
            },
            1 => match m.map_to(page, frame, flags, alloc) {
                Ok(f) => format!("ok {}", flush_page(f)),
                Err(e) => map_err(e),
            },
            2 => match m.identity_map(frame, flags, alloc) {
                Ok(f) => format!("ok {}", flush_page(f)),
                Err(e) => map_err(e),
            },
            3 => match m.unmap(page) {
                Ok((fr, f)) => format!("ok {} {}", flush_page(f), fr.start_address().as_u64()),
                Err(e) => unmap_err(e),
            },
            4 => match m.update_flags(page, flags) {
                Ok(f) => format!("ok {}", flush_page(f)),
                Err(e) => flag_err(e),
            },
            5 => match m.set_flags_p4_entry(page, flags) {
                Ok(f) => {
                    f.ignore();
                    "ok".into()
                }
                Err(e) => flag_err(e),
            },
            6 => match m.set_flags_p3_entry(page, flags) {
                Ok(f) => {
                    f.ignore();
                    "ok".into()
                }
                Err(e) => flag_err(e),
            },
            7 => match m.set_flags_p2_entry(page, flags) {
                Ok(f) => {
                    f.ignore();
                    "ok".into()
                }
                Err(e) => flag_err(e),
            },
            8 => match m.translate_page(page) {
                Ok(fr) => format!("ok {}", fr.start_address().as_u64()),
                Err(e) => tr_err(e),
            },
            _ => unreachable!(),
        }
    }
}

fn tp<S: PageSize, M: Mapper<S>>(m: &M, va: u64) -> String {
    let page = Page::<S>::containing_address(VirtAddr::new(va));
    match guard(|| m.translate_page(page)) {
        None => "9 0".into(),
        Some(Ok(f)) => format!("0 {}", f.start_address().as_u64()),
        Some(Err(TranslateError::PageNotMapped)) => "4 0".into(),
        Some(Err(TranslateError::ParentEntryHugePage)) => "2 0".into(),
        Some(Err(TranslateError::InvalidFrameAddress(a))) => format!("5 {}", a.as_u64()),
    }
}

fn probe<M: AllMapper>(m: &M, va: u64) -> String {
    let v = VirtAddr::new(va);
    let t = match guard(|| m.translate(v)) {
        None => "9 0 0 0 0".to_string(),
        Some(TranslateResult::NotMapped) => "0 0 0 0 0".into(),
        Some(TranslateResult::InvalidFrameAddress(a)) => format!("2 {} 0 0 0", a.as_u64()),
        Some(TranslateResult::Mapped { frame, offset, flags }) => {
            let (fa, sz) = match frame {
                MappedFrame::Size4KiB(f) => (f.start_address().as_u64(), 4096u64),
                MappedFrame::Size2MiB(f) => (f.start_address().as_u64(), 1 << 21),
                MappedFrame::Size1GiB(f) => (f.start_address().as_u64(), 1 << 30),
            };
            format!("1 {} {} {} {}", fa, sz, offset, flags.bits())
        }
    };
    let ta = match guard(|| m.translate_addr(v)) {
        None => "9 0".to_string(),
        Some(None) => "0 0".into(),
        Some(Some(pa)) => format!("1 {}", pa.as_u64()),
    };
    format!("{} {} {} {} {}", t, ta, tp::<Size4KiB, M>(m, va), tp::<Size2MiB, M>(m, va), tp::<Size1GiB, M>(m, va))
}

/// Execute one op on a freshly constructed mapper and produce the observation string.
pub fn observe<M: AllMapper>(
    m: &mut M,
    op: &Op,
    alloc: &mut ScriptAlloc,
    probes: &[u64],
    diff: &mut dyn FnMut() -> Vec<(u64, u64, u64)>,
) -> String {
    let mut dealloc = RecDealloc(Vec::new());
    let res = guard(|| match op.opcode {
        9 => {
            unsafe { m.clean_up(&mut dealloc) };
            "ok".to_string()
        }
        10 => {
            let range = PageRangeInclusive {
                start: Page::<Size4KiB>::containing_address(VirtAddr::new(op.page)),
                end: Page::<Size4KiB>::containing_address(VirtAddr::new(op.frame)),
            };
            unsafe { m.clean_up_addr_range(range, &mut dealloc) };
            "ok".to_string()
        }
        _ => match op.szc {
            0 => sized_op::<Size4KiB, M>(m, op, alloc),
            1 => sized_op::<Size2MiB, M>(m, op, alloc),
            _ => sized_op::<Size1GiB, M>(m, op, alloc),
        },
    })
    .unwrap_or_else(|| "panic".to_string());
    let changes = diff();
    let mut s = format!("R {} A {} D {}", res, alloc.used, dealloc.0.len());
    for f in &dealloc.0 {
        s.push_str(&format!(" {}", f));
    }
    s.push_str(&format!(" W {}", changes.len()));
    for (f, i, v) in &changes {
        s.push_str(&format!(" {} {} {}", f, i, v));
    }
    s.push_str(&format!(" P {}", probes.len()));
    for &va in probes {
        s.push(' ');
        s.push_str(&probe(m, va));
    }
    s
}

// ------------------------------------------------------------------------------------------------
// history generation

const LEAF_BITS_4K: [u32; 22] = [1, 2, 3, 4, 5, 6, 7, 8, 9, 10, 11, 52, 53, 54, 55, 56, 57, 58, 59, 60, 62, 63];
const PARENT_BITS: [u32; 20] = [1, 2, 3, 4, 5, 6, 8, 9, 10, 11, 52, 53, 54, 55, 56, 57, 58, 59, 61, 63];

fn rand_bits(rng: &mut Rng, bits: &[u32]) -> u64 {
    let mut v = 0u64;
    match rng.below(4) {
        0 => {}
        1 => {
            for &b in bits {
                v |= 1 << b;
            }
        }
        _ => {
            for &b in bits {
                if rng.chance(1, 3) {
                    v |= 1 << b;
                }
            }
        }
    }
    // writable / user are the interesting ones for effective rights
    if rng.chance(1, 2) {
        v |= 2;
    }
    if rng.chance(1, 3) {
        v |= 4;
    }
    v
}

pub fn leaf_flags(rng: &mut Rng, szc: u64) -> u64 {
    let mut v = 1 | rand_bits(rng, &LEAF_BITS_4K);
    if szc != 0 {
        v &= !(1 << 7); // HUGE is added by the mapper; bit 12 is the PAT bit of huge leaves
        if rng.chance(1, 4) {
            v |= 1 << 12;
        }
    }
    v
}

pub fn parent_flags(rng: &mut Rng) -> u64 {
    1 | rand_bits(rng, &PARENT_BITS)
}

pub fn size_of(szc: u64) -> u64 {
    match szc {
        0 => 4096,
        1 => 1 << 21,
        _ => 1 << 30,
    }
}

fn sign_extend(a: u64) -> u64 {
    (((a << 16) as i64) >> 16) as u64
}

pub struct Universe {
    pub p4_indices: Vec<u64>,
}

pub fn rand_page(rng: &mut Rng, uni: &Universe, szc: u64) -> u64 {
    let low = [0u64, 1, 511];
    let i4 = rng.pick(&uni.p4_indices);
    let pick = |rng: &mut Rng| if rng.chance(5, 6) { rng.pick(&low) } else { rng.below(512) };
    let i3 = pick(rng);
    let i2 = if szc <= 1 { pick(rng) } else { 0 };
    let i1 = if szc == 0 { pick(rng) } else { 0 };
    sign_extend((i4 << 39) | (i3 << 30) | (i2 << 21) | (i1 << 12))
}

pub fn rand_frame(rng: &mut Rng, szc: u64, canaries: &[u64]) -> u64 {
    let sz = size_of(szc);
    let a = match rng.below(6) {
        0 if szc == 0 && !canaries.is_empty() => rng.pick(canaries),
        1 => 0x000f_ffff_ffff_ffff, // last frame
        2 => rng.below(8) * sz,
        3 => (1u64 << 30) * rng.below(4) + (1 << 21) * rng.below(4) + 4096 * rng.below(4),
        _ => rng.phys(),
    };
    a & !(sz - 1) & 0x000f_ffff_ffff_ffff
}

pub struct History {
    pub pages: Vec<(u64, u64)>, // (page, szc) used so far
}

pub fn gen_op(rng: &mut Rng, uni: &Universe, hist: &mut History, canaries: &[u64]) -> Op {
    let szc = rng.below(3);
    // reuse an earlier page (same or different size) half of the time
    let (page, szc) = if !hist.pages.is_empty() && rng.chance(1, 2) {
        let (p, s) = rng.pick(&hist.pages);
        if rng.chance(2, 3) {
            (p, s)
        } else {
            let s2 = rng.below(3);
            (p & !(size_of(s2) - 1), s2)
        }
    } else {
        (rand_page(rng, uni, szc), szc)
    };
    let opcode = match rng.below(20) {
        0..=5 => 0,
        6 | 7 => 1,
        8 => 2,
        9..=11 => 3,
        12 | 13 => 4,
        14 => 5,
        15 => 6,
        16 => 7,
        17 => 8,
        18 => 9,
        _ => 10,
    };
    let mut op = Op { opcode, szc, page, frame: 0, flags: 0, pflags: 0 };
    match opcode {
        0 | 1 => {
            op.frame = rand_frame(rng, szc, canaries);
            op.flags = leaf_flags(rng, szc);
            op.pflags = if opcode == 0 { parent_flags(rng) } else { 0 };
            hist.pages.push((page, szc));
        }
        2 => {
            // identity map: the page is the frame address; keep it inside the universe's P4 slots
            let p = if rng.chance(1, 2) { page } else { rand_page(rng, uni, szc) };
            let f = p & 0x0000_7fff_ffff_ffff & !(size_of(szc) - 1);
            op.frame = f;
            op.page = f;
            op.flags = leaf_flags(rng, szc);
            hist.pages.push((f, szc));
        }
        4 => op.flags = leaf_flags(rng, szc),
        5 | 6 | 7 => op.flags = parent_flags(rng),
        10 => {
            // range: around known pages, table-aligned or not, possibly spanning the gap / to the last page
            let a = op.page & !0xfff;
            let (s, e) = match rng.below(8) {
                0 => (a, a),
                1 => (a & !((1 << 21) - 1), (a & !((1 << 21) - 1)).wrapping_add((1 << 21) - 4096)),
                2 => (a & !((1 << 30) - 1), (a & !((1 << 30) - 1)).wrapping_add((1 << 30) - 4096)),
                3 => (a & !((1 << 39) - 1), sign_extend((a & !((1u64 << 39) - 1)).wrapping_add((1 << 39) - 4096))),
                4 => (0, 0xffff_ffff_ffff_f000),
                5 => (a, 0xffff_ffff_ffff_f000),
                6 => (a.wrapping_add(4096), a), // empty
                _ => {
                    let b = rand_page(rng, uni, 0);
                    (a.min(b), a.max(b))
                }
            };
            op.page = sign_extend(s) & !0xfff;
            op.frame = sign_extend(e) & !0xfff;
            op.szc = 0;
        }
        _ => {}
    }
    op
}

pub fn gen_probes(rng: &mut Rng, op: &Op, hist: &History) -> Vec<u64> {
    let sz = size_of(op.szc);
    let mut v = Vec::new();
    let base = if op.opcode == 2 { op.frame } else { op.page };
    let cand = [
        base,
        base.wrapping_add(sz - 1),
        base.wrapping_sub(1),
        base.wrapping_add(sz),
        base.wrapping_add(rng.below(sz)),
        (base & !((1 << 21) - 1)).wrapping_add(rng.below(1 << 21)),
        (base & !((1 << 30) - 1)).wrapping_add(rng.below(1 << 30)),
    ];
    for c in cand {
        if sign_extend(c) == c {
            v.push(c);
        }
    }
    for _ in 0..3 {
        if !hist.pages.is_empty() {
            let (p, s) = rng.pick(&hist.pages);
            let c = p.wrapping_add(rng.below(size_of(s)));
            if sign_extend(c) == c {
                v.push(c);
            }
        }
    }
    v
}

/// Physical addresses for the pool slots: slot 0 = P4; table frames at small, 2 MiB-aligned,
/// 1 GiB-aligned and very high addresses (incl. addresses with bits 12/21/30 set); the last slots
/// are canary data frames and the foreign page.
pub fn pool_layout(rng: &mut Rng, n: usize, contiguous_base: Option<u64>) -> Vec<u64> {
    let mut v: Vec<u64> = Vec::new();
    if let Some(b) = contiguous_base {
        for k in 0..n {
            v.push(b + 4096 * k as u64);
        }
        return v;
    }
    let mut used = std::collections::HashSet::new();
    while v.len() < n {
        let a = match rng.below(7) {
            0 => 0x10_0000 + 4096 * rng.below(4096),
            1 => (1u64 << 21) * (1 + rng.below(64)),
            2 => (1u64 << 30) * (1 + rng.below(16)),
            3 => 0x000f_ffff_ffff_f000 - 4096 * rng.below(64),
            4 => (1u64 << 30) * rng.below(8) + (1 << 21) * rng.below(8) + (1 << 12) * (1 + rng.below(7)),
            _ => rng.phys() & !0xfff,
        };
        if a != 0 && used.insert(a) {
            v.push(a);
        }
    }
    v
}

pub enum MapperKind {
    Mapped,
    Offset,
}

pub fn run_histories(out: &mut Out, rng: &mut Rng, tier: Tier, mask: u64) {
    let nhist = tier.n(120, 3000);
    let nops = tier.n(60, 300);
    for h in 0..nhist {
        let kind = if h % 2 == 0 { MapperKind::Mapped } else { MapperKind::Offset };
        let npool = 96usize;
        let seed = rng.next();
        let base_phys = match rng.below(3) {
            0 => 0x4000_0000u64,
            1 => 0x20_0000,
            _ => 0x1_0000_1000,
        };
        let phys = match kind {
            MapperKind::Mapped => pool_layout(rng, npool, None),
            MapperKind::Offset => pool_layout(rng, npool, Some(base_phys)),
        };
        let mut pool = Pool::new(phys.clone(), seed);
        pool.zero_frame(0);
        let p4_phys = phys[0];
        // the last 8 slots before the foreign page are canary data frames: never handed to the allocator
        let foreign = npool - 1;
        let canaries: Vec<u64> = phys[npool - 9..npool - 1].to_vec();
        let mut free: Vec<u64> = phys[1..npool - 9].to_vec();
        let uni = Universe { p4_indices: vec![0, 1, 255, 256, 511] };
        let mut hist = History { pages: Vec::new() };
        let kind_code = match kind {
            MapperKind::Mapped => 0,
            MapperKind::Offset => 1,
        };
        out.emit("mh_begin", &[mask, kind_code, 0, p4_phys, seed, 0], "-", false);
        for _ in 0..nops {
            let op = gen_op(rng, &uni, &mut hist, &canaries);
            // allocator script: up to 3 answers, fresh frames in random order, failures injected
            let mut answers: Vec<Option<u64>> = Vec::new();
            let fail_at = if rng.chance(1, 6) { rng.below(4) } else { 99 };
            for k in 0..3u64 {
                if k >= fail_at || free.is_empty() {
                    answers.push(None);
                } else {
                    let idx = rng.below(free.len() as u64) as usize;
                    answers.push(Some(free.swap_remove(idx)));
                }
            }
            let probes = gen_probes(rng, &op, &hist);
            let mut alloc = ScriptAlloc { answers: answers.clone(), used: 0 };
            let p4ref: &mut PageTable = unsafe { &mut *pool.frame_ptr(0) };
            let poolptr: *mut Pool = &mut pool;
            let mut diff = || unsafe { (*poolptr).diff() };
            let obs = match kind {
                MapperKind::Mapped => {
                    let mapping = PoolMapping { base: pool.base, slot_of: pool.slot_of.clone(), foreign_slot: foreign };
                    let mut m = unsafe { MappedPageTable::new(p4ref, mapping) };
                    observe(&mut m, &op, &mut alloc, &probes, &mut diff)
                }
                MapperKind::Offset => {
                    let offset = VirtAddr::new(pool.base as u64 - base_phys);
                    let mut m = unsafe { OffsetPageTable::new(p4ref, offset) };
                    observe(&mut m, &op, &mut alloc, &probes, &mut diff)
                }
            };
            // unused answers go back to the free list; deallocated frames are recycled
            for a in answers.iter().skip(alloc.used.min(3)).flatten() {
                free.push(*a);
            }
            let toks: Vec<&str> = obs.split(' ').collect();
            if let Some(dpos) = toks.iter().position(|t| *t == "D") {
                let n: usize = toks[dpos + 1].parse().unwrap_or(0);
                for t in &toks[dpos + 2..dpos + 2 + n] {
                    if let Ok(f) = t.parse::<u64>() {
                        if !free.contains(&f) {
                            free.push(f);
                        }
                    }
                }
            }
            let mut args = vec![op.opcode, op.szc, op.page, op.frame, op.flags, op.pflags, 3];
            for a in &answers {
                args.push(a.unwrap_or(0));
            }
            args.push(probes.len() as u64);
            args.extend_from_slice(&probes);
            out.input_class(match op.opcode {
                0 => "map_to_with_table_flags",
                1 => "map_to",
                2 => "identity_map",
                3 => "unmap",
                4 => "update_flags",
                5 => "set_flags_p4",
                6 => "set_flags_p3",
                7 => "set_flags_p2",
                8 => "translate_page",
                9 => "clean_up",
                _ => "clean_up_addr_range",
            });
            let restoks: Vec<&str> = obs.split(' ').take(3).collect();
            let rc = if restoks[1] == "err" { format!("err{}", restoks[2]) } else { restoks[1].to_string() };
            out.input_class(&format!("result:op{}:sz{}:{}", op.opcode, op.szc, rc));
            out.emit("mh_op", &args, &obs, true);
        }
    }
}

/// Replay hand-written histories (`corpus/<id>/*.ops`): minimised past failures and witnesses of
/// the defects recorded in KNOWN_FINDINGS.txt. Format, one item per line:
///   begin <kind: 0 mapped | 1 offset>
///   op <opcode> <szcode> <page> <frame> <flags> <pflags> <s1> <s2> <s3>   (allocator answers as pool
///      slot numbers, 0 = None; numbers may be written in hex with 0x)
pub fn run_corpus(out: &mut Out, path: &str, mask: u64) {
    let text = match std::fs::read_to_string(path) {
        Ok(t) => t,
        Err(_) => return,
    };
    let num = |t: &str| -> u64 {
        if let Some(h) = t.strip_prefix("0x") {
            u64::from_str_radix(&h.replace('_', ""), 16).unwrap()
        } else {
            t.replace('_', "").parse().unwrap()
        }
    };
    let mut rng = Rng::new(7);
    let npool = 64usize;
    let base_phys = 0x4000_0000u64;
    let phys = pool_layout(&mut rng, npool, Some(base_phys));
    let seed = 12345u64;
    let mut pool: Option<Pool> = None;
    let mut kind = 0u64;
    let mut hist = History { pages: Vec::new() };
    for line in text.lines() {
        let line = line.split('#').next().unwrap().trim();
        if line.is_empty() {
            continue;
        }
        let t: Vec<&str> = line.split_whitespace().collect();
        match t[0] {
            "begin" => {
                kind = num(t[1]);
                let mut p = Pool::new(phys.clone(), seed);
                p.zero_frame(0);
                pool = Some(p);
                hist = History { pages: Vec::new() };
                out.emit("mh_begin", &[mask, kind, 0, phys[0], seed, 0], "-", false);
            }
            "op" => {
                let pool = pool.as_mut().expect("op before begin");
                let op = Op { opcode: num(t[1]), szc: num(t[2]), page: num(t[3]), frame: num(t[4]), flags: num(t[5]), pflags: num(t[6]) };
                let answers: Vec<Option<u64>> =
                    (7..10).map(|k| t.get(k).map(|x| num(x)).filter(|&s| s != 0).map(|s| phys[s as usize])).collect();
                hist.pages.push((if op.opcode == 2 { op.frame } else { op.page }, op.szc));
                let probes = gen_probes(&mut rng, &op, &hist);
                let mut alloc = ScriptAlloc { answers: answers.clone(), used: 0 };
                let p4ref: &mut PageTable = unsafe { &mut *pool.frame_ptr(0) };
                let poolptr: *mut Pool = pool;
                let mut diff = || unsafe { (*poolptr).diff() };
                let obs = if kind == 0 {
                    let mapping = PoolMapping { base: pool.base, slot_of: pool.slot_of.clone(), foreign_slot: npool - 1 };
                    let mut m = unsafe { MappedPageTable::new(p4ref, mapping) };
                    observe(&mut m, &op, &mut alloc, &probes, &mut diff)
                } else {
                    let offset = VirtAddr::new(pool.base as u64 - base_phys);
                    let mut m = unsafe { OffsetPageTable::new(p4ref, offset) };
                    observe(&mut m, &op, &mut alloc, &probes, &mut diff)
                };
                let mut args = vec![op.opcode, op.szc, op.page, op.frame, op.flags, op.pflags, 3];
                for a in &answers {
                    args.push(a.unwrap_or(0));
                }
                args.push(probes.len() as u64);
                args.extend_from_slice(&probes);
                out.emit("mh_op", &args, &obs, true);
            }
            _ => panic!("bad corpus line: {}", line),
        }
    }
}

/// All corpus files of a property directory, in name order.
pub fn run_corpus_dir(out: &mut Out, dir: &str, mask: u64) {
    let mut files: Vec<String> = match std::fs::read_dir(dir) {
        Ok(rd) => rd.filter_map(|e| e.ok()).map(|e| e.path().to_string_lossy().to_string()).filter(|p| p.ends_with(".ops")).collect(),
        Err(_) => return,
    };
    files.sort();
    for f in files {
        run_corpus(out, &f, mask);
    }
}
