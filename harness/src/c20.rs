//! C20 — `RecursivePageTable::new` validates its table; `p3_page`/`p2_page`/`p1_page` compute the
//! exact recursive addresses.
//!
//! * `rpt_pages <R> <page> => <p3> <p2> <p1>`: the cfg-gated hook `verif_table_pages` (the private
//!   `p3_page`/`p2_page`/`p1_page`) for ALL 512 recursive indices (exhaustive in R, including the
//!   upper half that a user process cannot map) × boundary-biased 4 KiB/2 MiB/1 GiB-aligned pages.
//! * `rpt_new <addr> <cr3> <entry> => ok <R> | err 1 (NotRecursive) | err 2 (NotActive) | panic`:
//!   `RecursivePageTable::new(&mut *(addr as *mut PageTable))` with a table really mapped at `addr`
//!   (recursive form (R,R,R,R) and near-recursive forms: one index off), `mov r, cr3` trapped and
//!   answered with `cr3` (software handler in `softmmu.rs`), and `entry` = the raw content of slot
//!   `p4_index(addr)` of that table: unused / another frame / the CR3 frame without PRESENT / the
//!   CR3 frame with PRESENT and arbitrary other bits. The index the mapper then uses is read from
//!   its `Debug` output.
//! * the fault addresses the software MMU sees while a recursive mapper operates are checked in the
//!   mapper histories (`mh_mmu`, see mapper.rs).

use crate::gen::{classify, Rng};
use crate::out::{guard, Out};
use crate::physmem::Pool;
use crate::softmmu::{self, SoftMmu};
use crate::Tier;
use x86_64::structures::paging::mapper::{verif_table_pages, InvalidPageTable};
use x86_64::structures::paging::{Page, PageTable, PageTableIndex, RecursivePageTable, Size4KiB};
use x86_64::VirtAddr;

fn sign_extend(a: u64) -> u64 {
    (((a << 16) as i64) >> 16) as u64
}

fn rand_page(rng: &mut Rng) -> u64 {
    let special = [0u64, 1, 2, 254, 255, 256, 257, 510, 511];
    let a = match rng.below(4) {
        0 => rng.canon(),
        1 => {
            // index quadruples with boundary members
            let mut idx = [0u64; 4];
            for i in idx.iter_mut() {
                *i = if rng.chance(2, 3) { rng.pick(&special) } else { rng.below(512) };
            }
            sign_extend((idx[0] << 39) | (idx[1] << 30) | (idx[2] << 21) | (idx[3] << 12))
        }
        _ => sign_extend(rng.next() & 0x0000_ffff_ffff_ffff),
    };
    // pages of the three sizes (the start address of a 2 MiB / 1 GiB page is a 4 KiB page too)
    let sz = rng.page_size();
    sign_extend(a & !(sz - 1))
}

fn pages(out: &mut Out, rng: &mut Rng, tier: Tier) {
    let per_r = tier.n(1_000, 100_000);
    for r in 0..512u64 {
        let ri = PageTableIndex::new(r as u16);
        for _ in 0..per_r {
            let p = rand_page(rng);
            out.input_class(classify(p));
            let page = Page::<Size4KiB>::containing_address(VirtAddr::new(p));
            let res = guard(|| verif_table_pages(page, ri));
            let s = match res {
                Some((p3, p2, p1)) => {
                    format!("{} {} {}", p3.start_address().as_u64(), p2.start_address().as_u64(), p1.start_address().as_u64())
                }
                None => "panic".to_string(),
            };
            out.emit("rpt_pages", &[r, p], &s, true);
        }
    }
    out.notes.insert("rpt_pages".into(), format!("all 512 recursive indices x {} pages each", per_r));
}

fn constructor(out: &mut Out, rng: &mut Rng, tier: Tier) {
    // a small pool only provides the memfd-backed table frame (slot 1) and the handler's state
    let phys: Vec<u64> = (0..4u64).map(|k| 0x10_0000 + 4096 * k).collect();
    let mut pool = Pool::new(phys, 99);
    // window index 0 = no recursive window: only the fixed mappings and the CR3 trap are used
    let mut mmu = SoftMmu::install(&pool, 3, 0, 0);
    let usable: Vec<u64> = [1u64, 2, 3, 64, 100, 127, 128, 129, 200, 253, 254].iter().copied().filter(|&r| softmmu::slot_usable(r)).collect();
    assert!(!usable.is_empty(), "no usable P4 slot in this process");
    out.notes.insert("rpt_new_slots".into(), format!("{:?}", usable));
    let n = tier.n(20_000, 1_000_000);
    let mut skipped = 0u64;
    for _ in 0..n {
        let r = rng.pick(&usable);
        // the table reference's address: recursive form, or one index off
        let mut idx = [r, r, r, r];
        let form = rng.below(6);
        if form >= 2 {
            let pos = rng.below(4) as usize;
            let other = match rng.below(4) {
                0 => r + 1,
                1 => r - 1,
                2 => rng.pick(&usable),
                _ => rng.below(512),
            };
            idx[pos] = other;
            // a changed P4 index must itself be a mappable slot
            if pos == 0 && !(usable.contains(&other)) {
                idx[0] = rng.pick(&usable);
            }
        }
        let addr = (idx[0] << 39) | (idx[1] << 30) | (idx[2] << 21) | (idx[3] << 12);
        let recursive = idx[1] == idx[0] && idx[2] == idx[0] && idx[3] == idx[0];
        // CR3: frame + low bits (PWT/PCD or a PCID), sometimes with bits 52..63 set
        let mut cr3 = match rng.below(4) {
            0 => rng.phys(),
            1 => 0x10_0000 + 4096 * rng.below(4),
            _ => rng.next() & 0x000f_ffff_ffff_ffff,
        };
        if rng.chance(1, 8) {
            cr3 |= rng.next() & 0xfff0_0000_0000_0000;
        }
        let frame = cr3 & 0x000f_ffff_ffff_f000;
        let flag_bits = rng.next() & 0xfff0_0000_0000_0ffe;
        let entry = match rng.below(10) {
            0 => 0,
            1 => (frame ^ (4096 << rng.below(40))) | 1 | flag_bits, // another frame (one address bit differs)
            2 => (rng.phys() & !0xfff) | 3,                         // another frame
            3 => frame | (flag_bits & !1),                          // the right frame without PRESENT
            4 => frame | 2,
            5 => frame | 1,
            6 => frame | 3,
            7 => frame | 0x83, // HUGE_PAGE set: `new` does not look at it
            _ => frame | 1 | flag_bits,
        };
        if !mmu.map_fixed(1, addr) {
            skipped += 1;
            continue;
        }
        // the other slots hold other classes of content, so reading the wrong slot is visible
        for i in 0..512usize {
            let v = match rng.below(4) {
                0 => 0,
                1 => frame | 3,
                2 => frame | 2,
                _ => (rng.phys() & !0xfff) | 3,
            };
            pool.poke(1, i, v);
        }
        pool.poke(1, idx[0] as usize, entry);
        mmu.arm_cr3(Some(cr3));
        let res = guard(|| {
            let table: &mut PageTable = unsafe { &mut *(addr as *mut PageTable) };
            match RecursivePageTable::new(table) {
                Ok(rpt) => {
                    // the index the mapper will use, from its derived Debug output
                    let d = format!("{:?}", rpt);
                    let key = "recursive_index: PageTableIndex(";
                    match d.rfind(key) {
                        Some(p) => {
                            let rest = &d[p + key.len()..];
                            let num: String = rest.chars().take_while(|c| c.is_ascii_digit()).collect();
                            format!("ok {}", num)
                        }
                        None => "ok unknown".to_string(),
                    }
                }
                Err(InvalidPageTable::NotRecursive) => "err 1".to_string(),
                Err(InvalidPageTable::NotActive) => "err 2".to_string(),
            }
        })
        .unwrap_or_else(|| "panic".to_string());
        mmu.arm_cr3(None);
        mmu.unmap_fixed(addr);
        out.input_class(if recursive { "new:recursive-address" } else { "new:near-recursive-address" });
        out.input_class(&format!("new:result:{}", res.split(' ').take(2).collect::<Vec<_>>().join("")));
        out.emit("rpt_new", &[addr, cr3, entry], &res, true);
    }
    out.notes.insert("rpt_new_skipped_address_in_use".into(), format!("{}", skipped));
    out.notes.insert("rpt_new_cr3_reads_trapped".into(), format!("{}", mmu.cr3_reads()));
}

pub fn run(out: &mut Out, rng: &mut Rng, tier: Tier) {
    constructor(out, rng, tier);
    pages(out, rng, tier);
}
