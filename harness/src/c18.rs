//! C18 — port objects: every read/write must trap as exactly one `in`/`out` of the type's width
//! with DX = the port and AL/AX/EAX = the value. Exhaustive over the 65536 ports (thorough tier;
//! the quick tier samples ports with a stride and always includes the boundary ports) x the
//! three value types x {read, write} x the access kinds `Port`, `PortReadOnly`,
//! `PortWriteOnly` and a clone of a `Port`. Values/device words are random per access; for `u8`
//! all 256 values are used on the boundary ports.

use crate::gen::Rng;
use crate::out::Out;
use crate::trap::{self, Event, Kind};
use crate::Tier;
use x86_64::instructions::port::{Port, PortRead, PortReadOnly, PortWrite, PortWriteOnly};

trait PortVal: PortRead + PortWrite + Copy {
    const BITS: u64;
    fn to64(self) -> u64;
    fn from64(v: u64) -> Self;
}
impl PortVal for u8 {
    const BITS: u64 = 8;
    fn to64(self) -> u64 {
        self as u64
    }
    fn from64(v: u64) -> Self {
        v as u8
    }
}
impl PortVal for u16 {
    const BITS: u64 = 16;
    fn to64(self) -> u64 {
        self as u64
    }
    fn from64(v: u64) -> Self {
        v as u16
    }
}
impl PortVal for u32 {
    const BITS: u64 = 32;
    fn to64(self) -> u64 {
        self as u64
    }
    fn from64(v: u64) -> Self {
        v as u32
    }
}

fn fmt_events(evs: &[Event]) -> String {
    let mut s = format!("{}", evs.len());
    for e in evs {
        match e.kind {
            Kind::In | Kind::Out => s.push_str(&format!(" x{} {} {}", e.hex(), e.a, e.b)),
            _ => s.push_str(&format!(" x{} 0 0", e.hex())),
        }
    }
    s
}

fn emit_read<T: PortVal>(out: &mut Out, access: u64, port: u16, dev: u32, f: impl FnOnce() -> T) {
    trap::regs().in_value = dev;
    let r = trap::run(f);
    let ret = match r.value {
        Some(v) => format!("ret {}", v.to64()),
        None => "panic".to_string(),
    };
    // `ret` has been formatted: a read sunk below the window has executed by now
    let stray = trap::take_stray();
    let tail = if stray > 0 { format!(" stray {}", stray) } else { String::new() };
    out.emit(
        "port_rd",
        &[access, T::BITS, port as u64, dev as u64],
        &format!("{} {}{}", fmt_events(&r.events), ret, tail),
        true,
    );
}

fn emit_write(out: &mut Out, access: u64, bits: u64, port: u16, val: u64, f: impl FnOnce()) {
    let r = trap::run(f);
    let mut s = fmt_events(&r.events);
    if r.value.is_none() {
        s.push_str(" panic");
    }
    let stray = trap::take_stray();
    if stray > 0 {
        s.push_str(&format!(" stray {}", stray));
    }
    out.emit("port_wr", &[access, bits, port as u64, val], &s, true);
}

fn one_port<T: PortVal>(out: &mut Out, rng: &mut Rng, port: u16, all_u8_values: bool) {
    let mask: u64 = if T::BITS == 32 { 0xffff_ffff } else { (1u64 << T::BITS) - 1 };
    // reads: the device word is a full 32-bit word, a narrower read must obtain its low bits only
    let dev = |rng: &mut Rng| -> u32 {
        match rng.below(8) {
            0 => 0,
            1 => u32::MAX,
            2 => 1u32 << rng.below(32),
            _ => rng.next() as u32,
        }
    };
    let d = dev(rng);
    emit_read::<T>(out, 0, port, d, || unsafe { Port::<T>::new(port).read() });
    let d = dev(rng);
    emit_read::<T>(out, 1, port, d, || unsafe { PortReadOnly::<T>::new(port).read() });
    let d = dev(rng);
    emit_read::<T>(out, 3, port, d, || unsafe {
        let p = Port::<T>::new(port);
        let mut q = p.clone();
        q.read()
    });
    // the same port read twice in one call (both accesses must happen), and a read whose value is not used
    // (the access must still happen): an `asm!` block declared `pure` lets an optimising build merge / drop them
    let d = dev(rng);
    emit_read::<T>(out, 4, port, d, || unsafe {
        let mut p = Port::<T>::new(port);
        let _first = p.read();
        p.read()
    });
    let d = dev(rng);
    emit_read::<T>(out, 5, port, d, || unsafe {
        let mut p = Port::<T>::new(port);
        let _ = p.read();
        T::from64(0)
    });
    // writes
    let v = (dev(rng) as u64) & mask;
    emit_write(out, 0, T::BITS, port, v, || unsafe { Port::<T>::new(port).write(T::from64(v)) });
    let v = (dev(rng) as u64) & mask;
    emit_write(out, 2, T::BITS, port, v, || unsafe { PortWriteOnly::<T>::new(port).write(T::from64(v)) });
    let v = (dev(rng) as u64) & mask;
    emit_write(out, 3, T::BITS, port, v, || unsafe {
        let p = Port::<T>::new(port);
        let mut q = p.clone();
        q.write(T::from64(v))
    });
    if all_u8_values && T::BITS == 8 {
        for v in 0..256u64 {
            emit_write(out, 0, 8, port, v, || unsafe { Port::<T>::new(port).write(T::from64(v)) });
            let d = (rng.next() as u32 & 0xffff_ff00) | v as u32;
            emit_read::<T>(out, 0, port, d, || unsafe { Port::<T>::new(port).read() });
        }
    }
    // equality is by port number
    for q in [port, port.wrapping_add(1), port.wrapping_sub(1), port ^ 0x100, port ^ 0x8000, rng.next() as u16] {
        let eq = Port::<T>::new(port) == Port::<T>::new(q);
        out.emit("port_eq", &[T::BITS, port as u64, q as u64], &format!("{}", eq as u8), true);
    }
}

pub fn boundary_ports() -> Vec<u16> {
    let mut v: Vec<u16> = vec![0, 1, 2, 0x3f8, 0x60, 0x64, 0x70, 0x71, 0xcf8, 0xcfc, 0x7fff, 0x8000, 0xfffe, 0xffff];
    for k in 0..16u32 {
        let p = 1u32 << k;
        v.push(p as u16);
        v.push((p - 1) as u16);
        v.push((p + 1) as u16);
    }
    v.sort();
    v.dedup();
    v
}

pub fn run(out: &mut Out, rng: &mut Rng, tier: Tier) {
    trap::allow_stray(true);
    let _ = trap::take_stray();
    if let Err(e) = trap::selftest() {
        eprintln!("trap selftest FAILED: {}", e);
        std::process::exit(2);
    }
    let bounds = boundary_ports();
    let stride: usize = if tier == Tier::Quick { 8 } else { 1 };
    let offset = if stride > 1 { rng.below(stride as u64) as usize } else { 0 };
    let mut ports: Vec<u16> = (0..=0xffffu32).skip(offset).step_by(stride).map(|p| p as u16).collect();
    for &b in &bounds {
        if !ports.contains(&b) {
            ports.push(b);
        }
    }
    ports.sort();
    for &p in &ports {
        let is_b = bounds.binary_search(&p).is_ok();
        out.input_class(if is_b { "boundary-port" } else { "port" });
        one_port::<u8>(out, rng, p, is_b);
        one_port::<u16>(out, rng, p, false);
        one_port::<u32>(out, rng, p, false);
    }
    out.notes.insert("ports_enumerated".into(), format!("{}", ports.len()));
    out.notes.insert("port_stride".into(), format!("{}", stride));
    out.notes.insert("traps".into(), format!("{}", trap::total_traps()));
    out.notes.insert("unexpected_instructions".into(), format!("{}", trap::unexpected_count() - 1));
}
