//! C13 — `set_general_handler!` installs, per vector, a stub that reports that vector.
//!
//! Part 1 (layout, validates the translator): offsets/sizes of the frame value's public fields,
//! offsets/sizes/handler kinds of the table's public fields and the slot `IndexMut<u8>` reaches for
//! every vector, all measured on the compiled crate.
//!
//! Part 2 (installation, exhaustive): every macro form is a *call site* (each expansion creates its
//! own 256 stubs): whole table, `lo..hi`, `lo..=hi`, `lo..`, `..hi`, `..=hi`, `..` with run-time
//! bounds, and the single-index form once per literal 0..=255. For every site the stub addresses are
//! learnt from one covering call on a fresh table (`gh_ref`); then every `(lo, hi)` pair (all 65536
//! for the two-bound forms) is installed on a fresh `new()` table and on a table filled with random
//! bytes, and the 4096 raw bytes before/after are compared entry by entry: an entry is *installed*
//! (changed, present bit set, gate offset = the site's stub for that vector), *identical* to before,
//! or *damaged* (anything else). Installed, damaged and (for `new()` tables) present sets are printed
//! as intervals.
//!
//! Part 3 (behaviour): for every site and every present entry of its covering call a simulated
//! interrupt (deliver.rs) enters the gate offset decoded from the raw entry with random error code,
//! arithmetic flags, interrupted stack pointer, frame distance and resume address; the general
//! handler records what it is called with; where execution resumes (landing pad, RSP, RFLAGS) is
//! recorded by the interrupted program. In a quarter of the deliveries — and always when the
//! entry's *type* is a diverging handler — the general handler leaves through the crate's
//! `InterruptStackFrameValue::iretq` instead of returning. A forked child checks that a diverging
//! stub panics instead of returning when the general handler returns.

use crate::c13_gen;
use crate::deliver::{self, Request, BASE_FLAGS, FREE_FLAGS, N_PADS, USER_CS, USER_SS};
use crate::gen::Rng;
use crate::out::{guard, Out};
use crate::Tier;
use x86_64::registers::rflags::RFlags;
use x86_64::set_general_handler;
use x86_64::structures::gdt::SegmentSelector;
use x86_64::structures::idt::{
    DivergingHandlerFunc, DivergingHandlerFuncWithErrCode, Entry, HandlerFunc, HandlerFuncWithErrCode,
    InterruptDescriptorTable as Idt, InterruptStackFrameValue, PageFaultHandlerFunc,
};
use x86_64::VirtAddr;

use deliver::general_handler;

// ------------------------------------------------------------------ handler kinds from the types

pub const KIND_ERR: u8 = 1;
pub const KIND_TYPED_ERR: u8 = 2;
pub const KIND_DIVERGING: u8 = 4;

pub trait HandlerKind {
    const KIND: u8;
}
impl HandlerKind for HandlerFunc {
    const KIND: u8 = 0;
}
impl HandlerKind for HandlerFuncWithErrCode {
    const KIND: u8 = KIND_ERR;
}
impl HandlerKind for PageFaultHandlerFunc {
    const KIND: u8 = KIND_ERR | KIND_TYPED_ERR;
}
impl HandlerKind for DivergingHandlerFunc {
    const KIND: u8 = KIND_DIVERGING;
}
impl HandlerKind for DivergingHandlerFuncWithErrCode {
    const KIND: u8 = KIND_DIVERGING | KIND_ERR;
}

pub fn kind_of<F: HandlerKind>(_: &Entry<F>) -> u8 {
    F::KIND
}

pub fn kind_of_array<F: HandlerKind, const N: usize>(_: &[Entry<F>; N]) -> u8 {
    F::KIND
}

// ------------------------------------------------------------------ call sites

type SiteFn = fn(&mut Idt, u8, u8);

#[derive(Clone, Copy)]
struct Site {
    /// 0 whole, 1 single literal, 2 `lo..hi`, 3 `lo..=hi`, 4 `lo..`, 5 `..hi`, 6 `..=hi`, 7 `..`
    form: u64,
    /// the literal of a single-index site
    lit: u64,
    f: SiteFn,
}

fn site_whole(idt: &mut Idt, _lo: u8, _hi: u8) {
    set_general_handler!(idt, general_handler);
}
fn site_excl(idt: &mut Idt, lo: u8, hi: u8) {
    set_general_handler!(idt, general_handler, lo..hi);
}
fn site_incl(idt: &mut Idt, lo: u8, hi: u8) {
    set_general_handler!(idt, general_handler, lo..=hi);
}
fn site_from(idt: &mut Idt, lo: u8, _hi: u8) {
    set_general_handler!(idt, general_handler, lo..);
}
fn site_to(idt: &mut Idt, _lo: u8, hi: u8) {
    set_general_handler!(idt, general_handler, ..hi);
}
fn site_to_incl(idt: &mut Idt, _lo: u8, hi: u8) {
    set_general_handler!(idt, general_handler, ..=hi);
}
fn site_full(idt: &mut Idt, _lo: u8, _hi: u8) {
    set_general_handler!(idt, general_handler, ..);
}

// The single-index form takes a literal: one expansion (256 stubs) per literal. All exception vectors and a
// spread of interrupt vectors are expanded; every other single index goes through the same macro arm
// (`$idx..=$idx`, re-extracted by the translator) and is exercised with run-time bounds as `v..=v`.
// One module per group: rustc's codegen units follow modules, so the expansions compile in parallel.
macro_rules! literal_sites {
    ($m:ident: $($n:literal)*) => {
        mod $m {
            use super::*;
            pub fn sites() -> Vec<(u64, SiteFn)> {
                vec![$(($n, {
                    fn site(idt: &mut Idt, _lo: u8, _hi: u8) {
                        set_general_handler!(idt, general_handler, $n);
                    }
                    site as SiteFn
                })),*]
            }
        }
    };
}

literal_sites!(lit_a: 0 8 16 24 32 129);
literal_sites!(lit_b: 1 9 17 25 47 200);
literal_sites!(lit_c: 2 10 18 26 48 254);
literal_sites!(lit_d: 3 11 19 27 63 255);
literal_sites!(lit_e: 4 12 20 28 64);
literal_sites!(lit_f: 5 13 21 29 100);
literal_sites!(lit_g: 6 14 22 30 127);
literal_sites!(lit_h: 7 15 23 31 128);

fn literal_sites() -> Vec<(u64, SiteFn)> {
    let mut v = Vec::new();
    v.extend(lit_a::sites());
    v.extend(lit_b::sites());
    v.extend(lit_c::sites());
    v.extend(lit_d::sites());
    v.extend(lit_e::sites());
    v.extend(lit_f::sites());
    v.extend(lit_g::sites());
    v.extend(lit_h::sites());
    v.sort_by_key(|(n, _)| *n);
    v
}

fn sites() -> Vec<Site> {
    let mut v = vec![
        Site { form: 0, lit: 0, f: site_whole },
        Site { form: 2, lit: 0, f: site_excl },
        Site { form: 3, lit: 0, f: site_incl },
        Site { form: 4, lit: 0, f: site_from },
        Site { form: 5, lit: 0, f: site_to },
        Site { form: 6, lit: 0, f: site_to_incl },
        Site { form: 7, lit: 0, f: site_full },
    ];
    for (lit, f) in literal_sites() {
        v.push(Site { form: 1, lit, f });
    }
    v
}

// ------------------------------------------------------------------ raw table access

type Raw = [[u64; 2]; 256];

fn raw(idt: &Idt) -> Raw {
    assert_eq!(core::mem::size_of::<Idt>(), 4096);
    unsafe { core::ptr::read(idt as *const Idt as *const Raw) }
}

fn fill_garbage(idt: &mut Idt, seed: u64) {
    let mut s = seed | 1;
    let p = idt as *mut Idt as *mut u64;
    for i in 0..512 {
        // xorshift64*
        s ^= s >> 12;
        s ^= s << 25;
        s ^= s >> 27;
        unsafe { core::ptr::write(p.add(i), s.wrapping_mul(0x2545_f491_4f6c_dd1d)) };
    }
}

/// Present bit of a 64-bit mode gate: bit 47 of the low quadword (byte 5, bit 7).
fn gate_present(e: &[u64; 2]) -> bool {
    e[0] >> 47 & 1 == 1
}

/// Gate offset: bits 15:0 at bytes 0-1, 31:16 at bytes 6-7, 63:32 at bytes 8-11.
fn gate_offset(e: &[u64; 2]) -> u64 {
    (e[0] & 0xffff) | ((e[0] >> 48) << 16) | ((e[1] & 0xffff_ffff) << 32)
}

fn intervals(set: &[bool; 256]) -> String {
    let mut parts: Vec<(usize, usize)> = Vec::new();
    let mut v = 0;
    while v < 256 {
        if set[v] {
            let a = v;
            while v + 1 < 256 && set[v + 1] {
                v += 1;
            }
            parts.push((a, v));
        }
        v += 1;
    }
    let mut s = format!("{}", parts.len());
    for (a, b) in parts {
        s.push_str(&format!(" {} {}", a, b));
    }
    s
}

/// The stub addresses a site installs: one covering call on a fresh table.
fn learn_refs(site: &Site) -> (Option<[u64; 256]>, Raw) {
    let mut idt = Box::new(Idt::new());
    let before = raw(&idt);
    let (lo, hi) = if site.form == 1 { (site.lit as u8, site.lit as u8) } else { (0, 255) };
    let ok = guard(|| (site.f)(&mut idt, lo, hi)).is_some();
    let after = raw(&idt);
    let mut refs = [0u64; 256];
    for v in 0..256 {
        if after[v] != before[v] && gate_present(&after[v]) {
            refs[v] = gate_offset(&after[v]);
        }
    }
    (if ok { Some(refs) } else { None }, after)
}

fn install_case(site: &Site, refs: &[u64; 256], lo: u8, hi: u8, pre: u64, idt: &mut Idt) -> String {
    if pre == 0 {
        *idt = Idt::new();
    } else {
        fill_garbage(idt, 0x9e37_79b9_7f4a_7c15u64.wrapping_mul(pre) ^ ((lo as u64) << 32) ^ ((hi as u64) << 16) ^ site.form);
    }
    let before = raw(idt);
    let r = guard(|| (site.f)(idt, lo, hi));
    let after = raw(idt);
    if r.is_none() {
        return "panic".into();
    }
    let mut inst = [false; 256];
    let mut dmg = [false; 256];
    let mut pres = [false; 256];
    for v in 0..256 {
        pres[v] = gate_present(&after[v]);
        if after[v] == before[v] {
            continue;
        }
        if pres[v] && refs[v] != 0 && gate_offset(&after[v]) == refs[v] {
            inst[v] = true;
        } else {
            dmg[v] = true;
        }
    }
    let mut s = format!("ok {} {}", intervals(&inst), intervals(&dmg));
    if pre == 0 {
        s.push(' ');
        s.push_str(&intervals(&pres));
    }
    s
}

// ------------------------------------------------------------------ deliveries

fn hw_error_code(v: u8) -> bool {
    deliver::hw_pushes_error_code(v)
}

struct DeliveryPlan {
    per_vector_range_sites: u64,
    per_vector_literal_sites: u64,
}

/// One delivery, printed as a protocol line. Returns false when the run has to stop (a stub
/// panicked: the thread's panic machinery is gone).
fn deliver_case(out: &mut Out, rng: &mut Rng, form: u64, v: u8, handler: u64, declared: u8) -> bool {
    let has_err = hw_error_code(v);
    let err = match rng.below(4) {
        0 => rng.next(),
        1 => rng.word(),
        2 => rng.below(0x1_0000),
        _ => rng.next() & 0xffff_ffff,
    };
    let leave = declared & KIND_DIVERGING != 0 || rng.chance(1, 4);
    let req = Request {
        handler,
        has_err,
        err,
        flags: BASE_FLAGS | (rng.next() & FREE_FLAGS),
        rsp_off: match rng.below(3) {
            0 => 8 * rng.below(64),
            1 => 16 * rng.below(256),
            _ => rng.below(4096),
        },
        frame_gap: if rng.chance(1, 2) { 0 } else { rng.below(2048) },
        pad: rng.below(N_PADS),
        cs: USER_CS,
        ss: USER_SS,
    };
    let o = deliver::deliver(v, &req, leave);
    if o.crashed == 0 && (o.pushed_rip_rel != 8 * req.pad || o.pushed_rsp_rel != req.rsp_off || !o.frame_aligned) {
        eprintln!("C13: the delivery simulation itself is inconsistent: {:?} -> {:?}", req, o);
        std::process::exit(3);
    }
    let args = [
        form,
        v as u64,
        leave as u64,
        has_err as u64,
        err,
        req.pad,
        req.flags,
        req.rsp_off,
        req.frame_gap,
        req.cs,
        req.ss,
    ];
    let s = o.seen;
    let seen = format!(
        "{} {} {} {} {} {} {} {}",
        s.calls,
        s.index,
        match s.err {
            Some(e) => format!("some {}", e),
            None => "none".into(),
        },
        o.seen_rip_rel,
        s.cs,
        s.flags,
        o.seen_rsp_rel,
        s.ss
    );
    let text = if o.crashed == 0 {
        format!("resumed {} {} {} {}", o.land_pad, o.land_rsp_rel, o.land_flags, seen)
    } else {
        format!("crash {} {}", o.crashed, seen)
    };
    out.emit("gh_deliver", &args, &text, true);
    out.input_class(&format!(
        "deliver:form{}:{}{}{}",
        form,
        if has_err { "err" } else { "noerr" },
        if declared & KIND_DIVERGING != 0 { ":diverging" } else { "" },
        if leave { ":leave-by-iretq" } else { ":return" }
    ));
    o.crashed != deliver::PANICKED
}

/// A diverging stub whose general handler returns must not return to the interrupted program.
fn diverging_returns(v: u8, handler: u64) -> &'static str {
    unsafe {
        let pid = libc::fork();
        if pid < 0 {
            return "fork-failed";
        }
        if pid == 0 {
            std::panic::set_hook(Box::new(|_| libc::_exit(42)));
            deliver::kick(5); // alarms are not inherited: a stub that spins ends the child with exit code 72
            let req = Request {
                handler,
                has_err: hw_error_code(v),
                err: 0x1234,
                flags: BASE_FLAGS,
                rsp_off: 64,
                frame_gap: 0,
                pad: 3,
                cs: USER_CS,
                ss: USER_SS,
            };
            let o = deliver::deliver(v, &req, false);
            libc::_exit(if o.crashed == 0 { 43 } else { 44 });
        }
        let mut status: libc::c_int = 0;
        libc::waitpid(pid, &mut status, 0);
        if libc::WIFEXITED(status) {
            match libc::WEXITSTATUS(status) {
                42 => "panicked",
                43 => "returned",
                _ => "died",
            }
        } else {
            "died"
        }
    }
}

// ------------------------------------------------------------------ run

pub fn run(out: &mut Out, rng: &mut Rng, tier: Tier) {
    let _guards = deliver::install_guards(300);
    std::panic::set_hook(Box::new(|info| {
        if deliver::in_delivery() {
            unsafe { deliver::panic_escape() }
        }
        if std::env::var("VERIF_DEBUG").is_ok() {
            eprintln!("{}", info);
        }
    }));
    if let Err(e) = deliver::selftest() {
        eprintln!("C13: {}", e);
        std::process::exit(3);
    }
    out.notes.insert("deliver_selftest".into(), "ok (plain/error-code stubs of the harness, both leave modes, all pads, crash guard)".into());

    // ---- part 1: layout --------------------------------------------------------------------
    let probe = InterruptStackFrameValue::new(
        VirtAddr::new(0x1000),
        SegmentSelector(0x33),
        RFlags::from_bits_retain(0x202),
        VirtAddr::new(0x2000),
        SegmentSelector(0x2b),
    );
    for (name, off, size) in c13_gen::frame_pub_fields(&probe) {
        out.emit(&format!("gh_frame:{}", name), &[], &format!("{} {}", off, size), true);
    }
    let (vs, ws) = c13_gen::frame_sizes();
    out.emit("gh_frame_size", &[], &format!("{} {}", vs, ws), true);
    let mut idt = Box::new(Idt::new());
    let base = &*idt as *const Idt as usize;
    let mut declared = [0u8; 256];
    for (name, off, size, kind) in c13_gen::idt_pub_fields(&idt) {
        out.emit(&format!("gh_field:{}", name), &[], &format!("{} {} {}", off, size, kind), true);
        if off % 16 == 0 {
            for k in 0..size / 16 {
                if off / 16 + k < 256 {
                    declared[off / 16 + k] = kind;
                }
            }
        }
    }
    out.emit("gh_field_count", &[], &format!("{}", c13_gen::IDT_FIELD_NAMES.len()), true);
    for v in 0..=255u8 {
        let r = guard(|| {
            let e: &mut Entry<HandlerFunc> = &mut idt[v];
            e as *mut Entry<HandlerFunc> as usize - base
        });
        let text = match r {
            Some(off) => format!("ok {}", off),
            None => "panic".into(),
        };
        out.emit("gh_index", &[v as u64], &text, true);
    }

    // the harness' own gate decoder against the spec's, on random words
    for _ in 0..tier.n(2000, 20000) {
        let e = [rng.next(), if rng.chance(1, 4) { rng.word() } else { rng.next() }];
        out.emit("gh_gate", &e, &format!("{} {}", gate_present(&e) as u8, gate_offset(&e)), true);
    }

    // ---- part 2: installation ----------------------------------------------------------------
    let all_sites = sites();
    let mut site_refs: Vec<Option<[u64; 256]>> = Vec::new();
    let mut site_tables: Vec<Raw> = Vec::new();
    for site in &all_sites {
        let (refs, table) = learn_refs(site);
        let mut pres = [false; 256];
        for v in 0..256 {
            pres[v] = gate_present(&table[v]);
        }
        let text = match &refs {
            Some(_) => format!("ok {}", intervals(&pres)),
            None => "panic".into(),
        };
        out.emit("gh_ref", &[site.form, site.lit], &text, true);
        site_refs.push(refs);
        site_tables.push(table);
    }
    let pres_max = tier.n(1, 3);
    for (si, site) in all_sites.iter().enumerate() {
        let refs = site_refs[si].unwrap_or([0u64; 256]);
        let pairs: Vec<(u8, u8)> = match site.form {
            0 | 7 => vec![(0, 0)],
            1 => vec![(site.lit as u8, site.lit as u8)],
            2 | 3 => (0..=255u8).flat_map(|lo| (0..=255u8).map(move |hi| (lo, hi))).collect(),
            4 => (0..=255u8).map(|lo| (lo, 0)).collect(),
            _ => (0..=255u8).map(|hi| (0, hi)).collect(),
        };
        for (lo, hi) in pairs {
            for pre in 0..=pres_max {
                let text = install_case(site, &refs, lo, hi, pre, &mut idt);
                let nontrivial = match site.form {
                    2 => lo < hi,
                    3 => lo <= hi,
                    _ => true,
                };
                out.emit("gh_install", &[site.form, lo as u64, hi as u64, pre], &text, nontrivial);
                out.input_class(&format!("install:form{}:{}", site.form, if pre == 0 { "new" } else { "garbage" }));
            }
        }
        deliver::kick(300);
    }

    // ---- part 3: behaviour -------------------------------------------------------------------
    let plan = DeliveryPlan {
        per_vector_range_sites: tier.n(16, 1024),
        per_vector_literal_sites: tier.n(2, 64),
    };
    let mut stopped = false;
    'sites: for (si, site) in all_sites.iter().enumerate() {
        let table = &site_tables[si];
        let n = if site.form == 1 { plan.per_vector_literal_sites } else { plan.per_vector_range_sites };
        for v in 0..=255u8 {
            let e = &table[v as usize];
            if !gate_present(e) {
                continue;
            }
            let handler = gate_offset(e);
            for _ in 0..n {
                if !deliver_case(out, rng, site.form, v, handler, declared[v as usize]) {
                    stopped = true;
                    break 'sites;
                }
            }
        }
        deliver::kick(300);
    }
    if stopped {
        out.notes.insert("stopped".into(), "a stub panicked during a delivery; the run ends after reporting that case".into());
        return;
    }
    // diverging stubs (by the type of the entry) with a general handler that returns
    let table = &site_tables[0];
    for v in 0..=255u8 {
        if declared[v as usize] & KIND_DIVERGING != 0 && gate_present(&table[v as usize]) {
            let r = diverging_returns(v, gate_offset(&table[v as usize]));
            out.emit("gh_divret", &[v as u64], r, true);
        }
    }
}
