//! C14 — GDT contents, selectors and limit.
//!
//! `GlobalDescriptorTable::<MAX>` is instantiated for MAX in {1, 2, 3, 8, 9, 8192} (plus 0 and
//! 8193 for `empty()`'s assertions). One protocol line is one whole history: the initial table
//! (`empty()` or `from_raw_entries`) and a sequence of appends; after every append — also after
//! a caught panic — `entries()` (raw values), `limit()` and the returned selector are printed.
//! `entries()` is printed as a delta against the snapshot before the call (common prefix length +
//! new tail), which is lossless.
//!
//! `load()`/`load_unsafe()` execute `lgdt`: the instruction is trapped (trap.rs) and its 10-byte operand
//! printed (`gdt_load max used base => <n> lgdt <limit> <base>`), for tables with fewer used slots than
//! capacity as well as full ones, on the heap, on the stack and in a static.

use crate::gen::Rng;
use crate::out::{guard, Out};
use crate::trap;
use crate::Tier;
use x86_64::structures::gdt::{Descriptor, DescriptorFlags, GlobalDescriptorTable};

#[derive(Clone, Copy)]
struct Step {
    kind: u64, // 0 user, 1 system
    lo: u64,
    hi: u64,
}

fn snapshot<const MAX: usize>(g: &GlobalDescriptorTable<MAX>) -> Option<Vec<u64>> {
    guard(|| g.entries().iter().map(|e| e.raw()).collect())
}

fn fmt_init<const MAX: usize>(g: &GlobalDescriptorTable<MAX>) -> (String, Vec<u64>) {
    let snap = snapshot(g);
    let limit = guard(|| g.limit());
    let mut s = String::from("i ");
    s.push_str(&limit.map(|l| l.to_string()).unwrap_or("X".into()));
    match &snap {
        Some(v) => {
            s.push_str(&format!(" {}", v.len()));
            for w in v {
                s.push_str(&format!(" {}", w));
            }
        }
        None => s.push_str(" X"),
    }
    (s, snap.unwrap_or_default())
}

/// Runs one history on a real table; returns the output tokens.
fn history<const MAX: usize>(raw: Option<&[u64]>, steps: &[Step]) -> String {
    let init = guard(|| match raw {
        None => GlobalDescriptorTable::<MAX>::empty(),
        Some(r) => GlobalDescriptorTable::<MAX>::from_raw_entries(r),
    });
    let mut g = match init {
        None => return "p".into(),
        Some(g) => g,
    };
    let (mut out, mut prev) = fmt_init(&g);
    for st in steps {
        let d = if st.kind == 0 {
            Descriptor::UserSegment(st.lo)
        } else {
            Descriptor::SystemSegment(st.lo, st.hi)
        };
        let r = guard(|| g.append(d));
        match r {
            Some(sel) => out.push_str(&format!(" s {}", sel.0)),
            None => out.push_str(" p"),
        }
        // observe the table again — after a caught panic it must be unchanged
        let cur = snapshot(&g).unwrap_or_default();
        let limit = guard(|| g.limit());
        let mut pre = 0;
        while pre < prev.len() && pre < cur.len() && prev[pre] == cur[pre] {
            pre += 1;
        }
        out.push_str(&format!(
            " {} {} {} {}",
            limit.map(|l| l.to_string()).unwrap_or("X".into()),
            cur.len(),
            pre,
            cur.len() - pre
        ));
        for w in &cur[pre..] {
            out.push_str(&format!(" {}", w));
        }
        prev = cur;
    }
    out
}

macro_rules! dispatch {
    ($max:expr, $f:ident ( $($a:expr),* )) => {
        match $max {
            0 => $f::<0>($($a),*),
            1 => $f::<1>($($a),*),
            2 => $f::<2>($($a),*),
            3 => $f::<3>($($a),*),
            8 => $f::<8>($($a),*),
            9 => $f::<9>($($a),*),
            8192 => $f::<8192>($($a),*),
            8193 => $f::<8193>($($a),*),
            _ => unreachable!(),
        }
    };
}

fn descriptor_word(rng: &mut Rng) -> u64 {
    let presets = [
        DescriptorFlags::KERNEL_CODE64.bits(),
        DescriptorFlags::KERNEL_DATA.bits(),
        DescriptorFlags::USER_CODE64.bits(),
        DescriptorFlags::USER_DATA.bits(),
        DescriptorFlags::USER_CODE32.bits(),
        DescriptorFlags::KERNEL_CODE32.bits(),
    ];
    let w = match rng.below(6) {
        0 => rng.pick(&presets),
        1 => rng.word(),
        2 => 0,
        3 => u64::MAX,
        _ => rng.next(),
    };
    // all DPLs equally often
    if rng.chance(1, 2) {
        (w & !(3u64 << 45)) | (rng.below(4) << 45)
    } else {
        w
    }
}

fn gen_steps(rng: &mut Rng, n: u64, out: &mut Out) -> Vec<Step> {
    (0..n)
        .map(|_| {
            let kind = if rng.chance(2, 5) { 1 } else { 0 };
            out.input_class(if kind == 0 { "append:user" } else { "append:system" });
            let lo = descriptor_word(rng);
            out.input_class(match (lo >> 45) & 3 {
                0 => "dpl0",
                1 => "dpl1",
                2 => "dpl2",
                _ => "dpl3",
            });
            Step { kind, lo, hi: if kind == 1 { rng.next() } else { 0 } }
        })
        .collect()
}

fn emit_seq(out: &mut Out, max: u64, raw: Option<&[u64]>, steps: &[Step]) {
    let mut args: Vec<u64> = vec![max];
    match raw {
        None => args.push(0),
        Some(r) => {
            args.push(r.len() as u64);
            args.extend_from_slice(r);
        }
    }
    args.push(steps.len() as u64);
    for s in steps {
        args.extend_from_slice(&[s.kind, s.lo, s.hi]);
    }
    let res = dispatch!(max, history(raw, steps));
    out.emit("gdt_seq", &args, &res, !steps.is_empty());
}

fn raw_slice(rng: &mut Rng, max: u64, out: &mut Out) -> Vec<u64> {
    // lengths around 1 and around MAX (both sides), first entry mostly zero
    // (for MAX = 8192 the near-capacity lengths are drawn rarely: each is a 8192-word line)
    let sel = if max > 100 && !rng.chance(1, 60) { 4 + rng.below(2) } else { rng.below(6) };
    let len = match sel {
        0 => 1,
        1 => max,
        2 => max + 1,
        3 => max.saturating_sub(1).max(1),
        4 => 1 + rng.below(max.min(12)),
        _ => 1 + rng.below(max.min(12) + 2),
    };
    let mut v: Vec<u64> = (0..len).map(|_| descriptor_word(rng)).collect();
    if rng.chance(9, 10) {
        v[0] = 0;
        out.input_class("raw:first-zero");
    } else {
        v[0] = 1u64 << rng.below(64);
        out.input_class("raw:first-nonzero");
    }
    out.input_class(if len > max { "raw:too-long" } else if len == max { "raw:exactly-max" } else { "raw:fits" });
    v
}

/// One trapped `lgdt`: a table of capacity MAX with `used - 1` appended user segments.
fn load_case<const MAX: usize>(out: &mut Out, rng: &mut Rng, used: u64, place: u64) {
    let mut g = GlobalDescriptorTable::<MAX>::empty();
    for _ in 1..used {
        g.append(Descriptor::UserSegment(descriptor_word(rng)));
    }
    let emit = |out: &mut Out, kind: u64, g: &GlobalDescriptorTable<MAX>, r: trap::Run<()>| {
        let base = g.entries().as_ptr() as u64;
        let mut s = trap::trace_tokens(&r.events);
        if r.value.is_none() {
            s.push_str(" panic");
        }
        out.emit("gdt_load", &[MAX as u64, used, base, kind], &s, true);
    };
    if place == 0 {
        // on the stack, `load_unsafe`
        let r = trap::run(|| unsafe { g.load_unsafe() });
        emit(out, 0, &g, r);
    } else {
        // leaked to the heap: `load` needs `&'static self`
        let pad: Vec<u8> = vec![0; (rng.below(64) * 8) as usize];
        let gs: &'static GlobalDescriptorTable<MAX> = Box::leak(Box::new(g));
        drop(pad);
        let r = trap::run(|| gs.load());
        emit(out, 1, gs, r);
        let r = trap::run(|| unsafe { gs.load_unsafe() });
        emit(out, 0, gs, r);
    }
}

static STATIC_GDT: GlobalDescriptorTable = GlobalDescriptorTable::new();

fn loads(out: &mut Out, rng: &mut Rng, tier: Tier) {
    if let Err(e) = trap::selftest() {
        eprintln!("trap selftest FAILED: {}", e);
        std::process::exit(2);
    }
    for _ in 0..tier.n(4, 60) {
        for place in [0u64, 1] {
            for max in [1u64, 2, 3, 8, 9] {
                // every number of used slots for the small capacities
                for used in 1..=max {
                    match max {
                        1 => load_case::<1>(out, rng, used, place),
                        2 => load_case::<2>(out, rng, used, place),
                        3 => load_case::<3>(out, rng, used, place),
                        8 => load_case::<8>(out, rng, used, place),
                        _ => load_case::<9>(out, rng, used, place),
                    }
                }
            }
            for used in [1u64, 2, 5, 4095, 4096, 8191, 8192] {
                load_case::<8192>(out, rng, used, place);
            }
        }
    }
    let r = trap::run(|| STATIC_GDT.load());
    let base = STATIC_GDT.entries().as_ptr() as u64;
    let mut s = trap::trace_tokens(&r.events);
    if r.value.is_none() {
        s.push_str(" panic");
    }
    out.emit("gdt_load", &[8, 1, base, 1], &s, true);
    out.notes.insert("traps".into(), format!("{}", trap::total_traps()));
}

pub fn run(out: &mut Out, rng: &mut Rng, tier: Tier) {
    loads(out, rng, tier);
    // empty(): every instantiated capacity, including the two the assertions reject
    for max in [0u64, 1, 2, 3, 8, 9, 8192, 8193] {
        let res = dispatch!(max, history(None, &[]));
        out.emit("gdt_empty", &[max], &res, true);
    }
    // the default table is GlobalDescriptorTable<8>::new()
    {
        let g = GlobalDescriptorTable::new();
        let (s, _) = fmt_init(&g);
        out.emit("gdt_empty", &[8], &s, true);
    }

    // from_raw_entries alone: empty slice, wrong first entry, too long, exact fit
    for max in [1u64, 2, 3, 8, 9, 8192] {
        {
            let res = dispatch!(max, history(Some(&[]), &[]));
            out.emit("gdt_raw", &[max, 0], &res, true);
        }
        for _ in 0..tier.n(300, 5_000) {
            let raw = raw_slice(rng, max, out);
            let mut args = vec![max, raw.len() as u64];
            args.extend_from_slice(&raw);
            let res = dispatch!(max, history(Some(&raw), &[]));
            out.emit("gdt_raw", &args, &res, true);
        }
    }

    // histories of appends
    for max in [1u64, 2, 3, 8, 9, 8192] {
        out.input_class(&format!("max:{}", max));
        for _ in 0..tier.n(10_000, 300_000) {
            // enough appends to hit the capacity for the small tables; short ones for 8192
            let n = match rng.below(4) {
                0 => rng.below(3),
                1 => rng.below(max.min(9) + 3),
                _ => rng.below(14),
            };
            let steps = gen_steps(rng, n, out);
            if rng.chance(1, 5) {
                let raw = raw_slice(rng, max, out);
                out.input_class("start:from_raw_entries");
                emit_seq(out, max, Some(&raw), &steps);
            } else {
                out.input_class("start:empty");
                emit_seq(out, max, None, &steps);
            }
        }
    }
    // MAX = 8192: fill to capacity and beyond, from empty (8200 appends; the replay in the Lean
    // driver is quadratic in the table length, so few of these) ...
    for _ in 0..tier.n(1, 12) {
        let steps = gen_steps(rng, 8192 + 8, out);
        out.input_class("fill-8192-from-empty");
        emit_seq(out, 8192, None, &steps);
    }
    // ... and from nearly full raw tables (0..=47 free slots) with 40 appends each
    for k in 0..tier.n(12, 96) {
        let mut raw: Vec<u64> = (0..(8192 - (k % 48))).map(|_| rng.next()).collect();
        raw[0] = 0;
        let steps = gen_steps(rng, 40, out);
        out.input_class("fill-8192-from-raw");
        emit_seq(out, 8192, Some(&raw), &steps);
    }
}
