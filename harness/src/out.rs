//! Output side of the line protocol, panic capture, and per-run statistics.

use std::collections::{BTreeMap, HashSet};
use std::io::{BufWriter, Write};
use std::panic::{catch_unwind, AssertUnwindSafe};

pub struct Out {
    w: BufWriter<std::io::Stdout>,
    pub evaluations: u64,
    pub classes: BTreeMap<String, u64>,
    pub inputs: BTreeMap<String, u64>,
    distinct: HashSet<u64>,
    pub distinct_nontrivial: u64,
    pub samples: Vec<String>,
    pub notes: BTreeMap<String, String>,
}

fn fnv(s: &str) -> u64 {
    let mut h: u64 = 0xcbf2_9ce4_8422_2325;
    for b in s.bytes() {
        h ^= b as u64;
        h = h.wrapping_mul(0x100_0000_01b3);
    }
    h
}

impl Out {
    pub fn new() -> Self {
        Out {
            w: BufWriter::with_capacity(1 << 20, std::io::stdout()),
            evaluations: 0,
            classes: BTreeMap::new(),
            inputs: BTreeMap::new(),
            distinct: HashSet::new(),
            distinct_nontrivial: 0,
            samples: Vec::new(),
            notes: BTreeMap::new(),
        }
    }

    pub fn header(&mut self, s: &str) {
        writeln!(self.w, "{}", s).unwrap();
    }

    /// Emit one case. `nontrivial` is the harness' own rule for the case (documented per
    /// property in the evidence `rule`); distinctness is by the full line text.
    pub fn emit(&mut self, op: &str, args: &[u64], out: &str, nontrivial: bool) {
        let mut line = String::with_capacity(64);
        line.push_str(op);
        for a in args {
            line.push(' ');
            line.push_str(&a.to_string());
        }
        line.push_str(" => ");
        line.push_str(out);
        // privileged instructions trapped outside the observed call since the previous line (see trap.rs)
        let stray = crate::trap::take_stray();
        if stray > 0 {
            line.push_str(&format!(" stray {}", stray));
        }
        self.evaluations += 1;
        let cls = format!(
            "{}:{}",
            op,
            out.split(' ').find(|t| t.parse::<u128>().is_err()).unwrap_or("num")
        );
        *self.classes.entry(cls).or_insert(0) += 1;
        if self.distinct.insert(fnv(&line)) && nontrivial {
            self.distinct_nontrivial += 1;
        }
        if self.samples.len() < 12 && (self.evaluations % 97 == 1 || self.samples.len() < 3) {
            self.samples.push(line.clone());
        }
        writeln!(self.w, "{}", line).unwrap();
    }

    /// Flush buffered protocol lines (before running code that may crash the process).
    pub fn flush(&mut self) {
        self.w.flush().unwrap();
    }

    pub fn input_class(&mut self, c: &str) {
        *self.inputs.entry(c.to_string()).or_insert(0) += 1;
    }

    pub fn finish(mut self, stats_path: Option<&str>) {
        self.w.flush().unwrap();
        if let Some(p) = stats_path {
            let mut s = String::new();
            s.push_str("{\n");
            s.push_str(&format!(" \"evaluations\": {},\n", self.evaluations));
            s.push_str(&format!(" \"distinct_nontrivial\": {},\n", self.distinct_nontrivial));
            s.push_str(" \"classes\": {");
            s.push_str(
                &self
                    .classes
                    .iter()
                    .map(|(k, v)| format!("\"{}\": {}", k, v))
                    .collect::<Vec<_>>()
                    .join(", "),
            );
            s.push_str("},\n \"inputs\": {");
            s.push_str(
                &self
                    .inputs
                    .iter()
                    .map(|(k, v)| format!("\"{}\": {}", k, v))
                    .collect::<Vec<_>>()
                    .join(", "),
            );
            s.push_str("},\n \"notes\": {");
            s.push_str(
                &self
                    .notes
                    .iter()
                    .map(|(k, v)| format!("\"{}\": \"{}\"", k, v.replace('"', "'")))
                    .collect::<Vec<_>>()
                    .join(", "),
            );
            s.push_str("},\n \"samples\": [");
            s.push_str(
                &self
                    .samples
                    .iter()
                    .map(|l| format!("\"{}\"", l))
                    .collect::<Vec<_>>()
                    .join(", "),
            );
            s.push_str("]\n}\n");
            std::fs::write(p, s).unwrap();
        }
    }
}

/// Run `f`, mapping a panic to `None`.
pub fn guard<T>(f: impl FnOnce() -> T) -> Option<T> {
    catch_unwind(AssertUnwindSafe(f)).ok()
}

pub fn fmt_r(r: Option<u64>) -> String {
    match r {
        Some(v) => format!("ok {}", v),
        None => "panic".to_string(),
    }
}

pub fn fmt_rbool(r: Option<bool>) -> String {
    match r {
        Some(v) => format!("ok {}", v as u8),
        None => "panic".to_string(),
    }
}

pub fn fmt_opt(o: Option<u64>) -> String {
    match o {
        Some(v) => format!("some {}", v),
        None => "none".to_string(),
    }
}

pub fn fmt_pair(p: (usize, Option<usize>)) -> String {
    format!("{} {}", p.0, fmt_opt(p.1.map(|v| v as u64)))
}

/// Measure the build profile: does `u64` addition trap on overflow in this build?
pub fn overflow_checks_on() -> bool {
    let a = std::hint::black_box(u64::MAX);
    let b = std::hint::black_box(1u64);
    #[allow(arithmetic_overflow)]
    let r = catch_unwind(|| a + b);
    r.is_err()
}
