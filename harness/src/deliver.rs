//! Simulated interrupt delivery (DESIGN.md section 5.3) — the "hardware" of C13.
//!
//! [`deliver`] does what a CPU in 64-bit mode does when it accepts an interrupt or exception
//! through a present IDT gate (SDM Vol.3 §6.14.2 "64-Bit Mode Stack Frame", APM Vol.2 §8.9.3):
//! the interrupted stack pointer is rounded down to a 16-byte boundary, SS, RSP, RFLAGS, CS and RIP
//! of the interrupted program are pushed as five 8-byte slots, the error code (when the vector
//! defines one) is pushed on top, and execution continues at the gate's offset. Everything is done
//! in one `asm!` block of the harness process; the gate's handler (an `extern "x86-interrupt"`
//! stub of the crate) ends with a real `iretq`, which in 64-bit user mode is an ordinary
//! same-privilege return as long as the CS/SS images are the process' own user selectors.
//!
//! The "interrupted program" is the asm block itself:
//!   * its RSP at the moment of the interrupt is `anchor - rsp_off` for a caller-chosen `rsp_off`
//!     (any byte alignment), the frame is built `frame_gap` bytes further down (a stack switch);
//!   * its RIP is one of [`N_PADS`] landing pads (`pad_base + 8*k`); each pad loads its number
//!     into r10, so where execution resumed is observed, not assumed;
//!   * the RFLAGS image is `0x202` plus caller-chosen arithmetic flags and ID.
//! At the landing pad *every* general register is dead (a handler that leaves through
//! `InterruptStackFrameValue::iretq` never restores anything), so callee-saved registers are saved
//! on the stack before and found again through the context block, never through RSP.
//!
//! Robustness: a wrong stub must become a reported case, not a silent crash. While a delivery is
//! in flight, SIGSEGV/SIGBUS/SIGILL/SIGFPE/SIGTRAP (on an alternate stack, because RSP may be
//! garbage) name the vector on stderr, mark the context as crashed and resume at the recovery
//! label of the asm block, which restores RSP and the saved registers from the context block.
//! A panic raised inside a stub (it cannot unwind out of an `x86-interrupt` function) is routed
//! the same way by [`panic_escape`] (called from the harness' panic hook). A watchdog `alarm`
//! turns a stub that never comes back into exit code 72 with the vector named.

#![allow(static_mut_refs)]

use core::arch::asm;
use core::ptr::{addr_of, addr_of_mut};
use x86_64::structures::idt::InterruptStackFrame;

pub const USER_CS: u64 = 0x33;
pub const USER_SS: u64 = 0x2b;
pub const N_PADS: u64 = 8;
/// RFLAGS bits a user program may set freely: CF, PF, AF, ZF, SF, OF and ID.
pub const FREE_FLAGS: u64 = 0x1 | 0x4 | 0x10 | 0x40 | 0x80 | 0x800 | 0x20_0000;
/// Bit 1 (always one) and IF (always set while user code runs).
pub const BASE_FLAGS: u64 = 0x202;

/// What the simulated CPU is asked to do. All values are chosen by the caller.
#[derive(Clone, Copy, Debug, Default)]
pub struct Request {
    /// Gate offset (handler address decoded from the raw IDT entry).
    pub handler: u64,
    /// Push an error code (the vector defines one).
    pub has_err: bool,
    pub err: u64,
    /// RFLAGS image.
    pub flags: u64,
    /// Interrupted RSP = anchor - rsp_off.
    pub rsp_off: u64,
    /// Distance between the interrupted RSP and the (then 16-byte aligned) frame.
    pub frame_gap: u64,
    /// Interrupted RIP = landing pad `pad` (< N_PADS).
    pub pad: u64,
    pub cs: u64,
    pub ss: u64,
}

#[repr(C)]
struct Ctx {
    handler: u64,    // 0
    has_err: u64,    // 8
    err: u64,        // 16
    flags: u64,      // 24
    rsp_off: u64,    // 32
    frame_gap: u64,  // 40
    pad: u64,        // 48
    cs: u64,         // 56
    ss: u64,         // 64
    save_rsp: u64,   // 72  RSP after saving the callee-saved registers (the anchor)
    recover: u64,    // 80  address of the recovery label
    pad_base: u64,   // 88
    land_rsp: u64,   // 96
    land_flags: u64, // 104
    land_pad: u64,   // 112
    pushed_rip: u64, // 120
    pushed_rsp: u64, // 128
    frame_addr: u64, // 136 address of the RIP slot of the frame
    crashed: u64,    // 144 signal number / PANICKED, set by the guards
    landed: u64,     // 152 1 when a landing pad was reached
}

static mut CTX: Ctx = Ctx {
    handler: 0,
    has_err: 0,
    err: 0,
    flags: 0,
    rsp_off: 0,
    frame_gap: 0,
    pad: 0,
    cs: 0,
    ss: 0,
    save_rsp: 0,
    recover: 0,
    pad_base: 0,
    land_rsp: 0,
    land_flags: 0,
    land_pad: 0,
    pushed_rip: 0,
    pushed_rsp: 0,
    frame_addr: 0,
    crashed: 0,
    landed: 0,
};

/// The architectural table of the simulated CPU: vectors whose delivery pushes an error code
/// (SDM Vol.3 Table 6-1: #DF 8, #TS 10, #NP 11, #SS 12, #GP 13, #PF 14, #AC 17, #CP 21; APM Vol.2
/// Table 8-1 adds #VC 29 and #SX 30). The driver cross-checks every use against the Lean spec.
pub fn hw_pushes_error_code(v: u8) -> bool {
    matches!(v, 8 | 10 | 11 | 12 | 13 | 14 | 17 | 21 | 29 | 30)
}

/// `crashed` value for a panic raised inside a stub.
pub const PANICKED: u64 = 1000;

static mut IN_DELIVERY: bool = false;
/// Suppress the stderr message of the crash guard (self-test of the guard itself).
static mut QUIET: bool = false;
static mut CUR_VECTOR: u64 = 0;

/// What the general handler saw (first call) and how often it was called.
#[derive(Clone, Copy, Debug, Default)]
pub struct Seen {
    pub calls: u64,
    pub index: u64,
    pub err: Option<u64>,
    pub rip: u64,
    pub cs: u64,
    pub flags: u64,
    pub rsp: u64,
    pub ss: u64,
}

static mut SEEN: Seen = Seen { calls: 0, index: 0, err: None, rip: 0, cs: 0, flags: 0, rsp: 0, ss: 0 };
/// The general handler leaves through `InterruptStackFrameValue::iretq` instead of returning.
static mut LEAVE_BY_IRETQ: bool = false;

/// The general handler installed by every `set_general_handler!` call of the harness
/// (a `GeneralHandlerFunc`). It must never panic (it runs below an `x86-interrupt` frame).
pub fn general_handler(frame: InterruptStackFrame, index: u8, error_code: Option<u64>) {
    unsafe {
        SEEN.calls += 1;
        if SEEN.calls == 1 {
            SEEN.index = index as u64;
            SEEN.err = error_code;
            SEEN.rip = frame.instruction_pointer.as_u64();
            SEEN.cs = frame.code_segment.0 as u64;
            SEEN.flags = frame.cpu_flags.bits();
            SEEN.rsp = frame.stack_pointer.as_u64();
            SEEN.ss = frame.stack_segment.0 as u64;
        }
        if LEAVE_BY_IRETQ {
            // the crate's own iretq, on the frame value it handed us
            frame.iretq();
        }
    }
}

/// Result of one delivery, all addresses relative (replayable): `*_rel` are
/// `value - pad_base` for instruction pointers and `anchor - value` for stack pointers.
#[derive(Clone, Copy, Debug, Default)]
pub struct Outcome {
    /// 0 = a landing pad was reached; signal number or [`PANICKED`] otherwise.
    pub crashed: u64,
    pub seen: Seen,
    pub seen_rip_rel: u64,
    pub seen_rsp_rel: u64,
    pub pushed_rip_rel: u64,
    pub pushed_rsp_rel: u64,
    pub land_pad: u64,
    pub land_rsp_rel: u64,
    pub land_flags: u64,
    /// frame base is 16-byte aligned below the interrupted RSP (self-check of the simulation)
    pub frame_aligned: bool,
}

/// Deliver one simulated interrupt for `vector` (only used for messages) and report what happened.
pub fn deliver(vector: u8, req: &Request, leave_by_iretq: bool) -> Outcome {
    unsafe {
        SEEN = Seen::default();
        LEAVE_BY_IRETQ = leave_by_iretq;
        CTX.handler = req.handler;
        CTX.has_err = req.has_err as u64;
        CTX.err = req.err;
        CTX.flags = req.flags;
        CTX.rsp_off = req.rsp_off;
        CTX.frame_gap = req.frame_gap;
        CTX.pad = req.pad % N_PADS;
        CTX.cs = req.cs;
        CTX.ss = req.ss;
        CTX.crashed = 0;
        CTX.landed = 0;
        CTX.land_pad = u64::MAX;
        CTX.land_rsp = 0;
        CTX.land_flags = 0;
        CUR_VECTOR = vector as u64;
        IN_DELIVERY = true;
        raw_deliver();
        IN_DELIVERY = false;
        LEAVE_BY_IRETQ = false;
        let anchor = CTX.save_rsp;
        let seen = SEEN;
        Outcome {
            crashed: if CTX.crashed != 0 {
                CTX.crashed
            } else if CTX.landed == 0 {
                999
            } else {
                0
            },
            seen,
            seen_rip_rel: seen.rip.wrapping_sub(CTX.pad_base),
            seen_rsp_rel: anchor.wrapping_sub(seen.rsp),
            pushed_rip_rel: CTX.pushed_rip.wrapping_sub(CTX.pad_base),
            pushed_rsp_rel: anchor.wrapping_sub(CTX.pushed_rsp),
            land_pad: CTX.land_pad,
            land_rsp_rel: anchor.wrapping_sub(CTX.land_rsp),
            land_flags: CTX.land_flags,
            frame_aligned: (CTX.frame_addr + 40) % 16 == 0
                && CTX.frame_addr + 40 <= CTX.pushed_rsp
                && CTX.pushed_rsp - CTX.frame_addr < 40 + req.frame_gap + 16,
        }
    }
}

#[inline(never)]
unsafe fn raw_deliver() {
    asm!(
        // ---- the interrupted program -------------------------------------------------------
        "push rbx", "push rbp", "push r12", "push r13", "push r14", "push r15",
        "lea rax, [rip + {ctx}]",
        "mov [rax + 72], rsp",
        "lea rcx, [rip + 30f]",
        "mov [rax + 80], rcx",
        "lea rcx, [rip + 20f]",
        "mov [rax + 88], rcx",
        "mov rdx, [rax + 48]",
        "lea rcx, [rcx + rdx*8]",      // interrupted RIP = pad_base + 8*pad
        "mov [rax + 120], rcx",
        "mov r11, rsp",
        "sub r11, [rax + 32]",         // interrupted RSP
        "mov [rax + 128], r11",
        "mov rsp, r11",
        // ---- the CPU accepts the interrupt --------------------------------------------------
        "mov r10, r11",
        "sub r10, [rax + 40]",         // (stack switch: the frame need not touch the old stack top)
        "and r10, -16",                // 64-bit mode: RSP aligned to 16 before the pushes
        "mov rsp, r10",
        "push qword ptr [rax + 64]",   // SS
        "push r11",                    // RSP
        "push qword ptr [rax + 24]",   // RFLAGS
        "push qword ptr [rax + 56]",   // CS
        "push rcx",                    // RIP
        "mov [rax + 136], rsp",
        "cmp qword ptr [rax + 8], 0",
        "je 50f",
        "push qword ptr [rax + 16]",   // error code
        "50:",
        "jmp qword ptr [rax]",         // gate offset
        // ---- landing pads: the interrupted program resumes here -----------------------------
        ".p2align 3",
        "20:",
        "mov r10d, 0", "jmp 40f", ".p2align 3",
        "mov r10d, 1", "jmp 40f", ".p2align 3",
        "mov r10d, 2", "jmp 40f", ".p2align 3",
        "mov r10d, 3", "jmp 40f", ".p2align 3",
        "mov r10d, 4", "jmp 40f", ".p2align 3",
        "mov r10d, 5", "jmp 40f", ".p2align 3",
        "mov r10d, 6", "jmp 40f", ".p2align 3",
        "mov r10d, 7", "jmp 40f", ".p2align 3",
        "40:",
        "lea rax, [rip + {ctx}]",
        "mov [rax + 96], rsp",
        "mov [rax + 112], r10",
        "pushfq",
        "pop qword ptr [rax + 104]",
        "mov qword ptr [rax + 152], 1",
        // ---- recovery: also entered from the crash guards -----------------------------------
        "30:",
        "lea rax, [rip + {ctx}]",
        "mov rsp, [rax + 72]",
        // sane flags whatever was loaded (sigreturn does not restore NT; a set NT makes every later iretq fault)
        "push 0x202",
        "popfq",
        "pop r15", "pop r14", "pop r13", "pop r12", "pop rbp", "pop rbx",
        ctx = sym CTX,
        out("r12") _, out("r13") _, out("r14") _, out("r15") _,
        clobber_abi("sysv64"),
    );
}

// ------------------------------------------------------------------------------------- guards

static mut ALT_STACK: [u8; 65536] = [0; 65536];
static mut OLD_ACTIONS: [Option<libc::sigaction>; 5] = [None, None, None, None, None];
const SIGNALS: [libc::c_int; 5] = [libc::SIGSEGV, libc::SIGBUS, libc::SIGILL, libc::SIGFPE, libc::SIGTRAP];

fn write_err(msg: &[u8]) {
    unsafe {
        libc::write(2, msg.as_ptr() as *const libc::c_void, msg.len());
    }
}

fn write_num(mut n: u64) {
    let mut buf = [0u8; 20];
    let mut i = buf.len();
    loop {
        i -= 1;
        buf[i] = b'0' + (n % 10) as u8;
        n /= 10;
        if n == 0 {
            break;
        }
    }
    write_err(&buf[i..]);
}

/// Messages are capped: stderr is a pipe that run.py drains only at the end.
static mut ANNOUNCED: u32 = 0;
const MAX_ANNOUNCEMENTS: u32 = 40;

fn announce(what: &[u8], code: u64) {
    unsafe {
        if QUIET || ANNOUNCED >= MAX_ANNOUNCEMENTS {
            return;
        }
        ANNOUNCED += 1;
        if ANNOUNCED == MAX_ANNOUNCEMENTS {
            write_err(b"C13 deliver: (further messages suppressed)\n");
        }
    }
    write_err(b"C13 deliver: ");
    write_err(what);
    write_err(b" ");
    write_num(code);
    write_err(b" while delivering vector ");
    write_num(unsafe { CUR_VECTOR });
    write_err(b"\n");
}

extern "C" fn on_signal(sig: libc::c_int, _info: *mut libc::siginfo_t, uc: *mut libc::c_void) {
    unsafe {
        if !IN_DELIVERY {
            announce(b"signal outside a delivery", sig as u64);
            libc::_exit(70);
        }
        announce(b"signal", sig as u64);
        CTX.crashed = sig as u64;
        let uc = uc as *mut libc::ucontext_t;
        (*uc).uc_mcontext.gregs[libc::REG_RIP as usize] = CTX.recover as i64;
        (*uc).uc_mcontext.gregs[libc::REG_RSP as usize] = CTX.save_rsp as i64;
        // a sane flags image (DF clear, no TF)
        (*uc).uc_mcontext.gregs[libc::REG_EFL as usize] = BASE_FLAGS as i64;
    }
}

extern "C" fn on_alarm(_sig: libc::c_int) {
    unsafe {
        QUIET = false;
        ANNOUNCED = 0;
    }
    announce(b"watchdog timeout, in_delivery =", unsafe { IN_DELIVERY } as u64);
    unsafe { libc::_exit(72) };
}

/// Is a delivery in flight (for the panic hook)?
pub fn in_delivery() -> bool {
    unsafe { IN_DELIVERY }
}

/// Called by the panic hook when a stub panics during a delivery: the panic cannot unwind out of
/// an `x86-interrupt` function, so the delivery is abandoned through the recovery label.
/// After this the thread's panic machinery is unusable; the caller stops the run afterwards.
pub unsafe fn panic_escape() -> ! {
    announce(b"panic inside a stub, code", PANICKED);
    CTX.crashed = PANICKED;
    asm!(
        "lea rax, [rip + {ctx}]",
        "jmp qword ptr [rax + 80]",
        ctx = sym CTX,
        options(noreturn)
    );
}

/// Install the crash guards and the watchdog (seconds). Returns a guard that restores the
/// previous signal actions when dropped.
pub struct Guards;

pub fn install_guards(watchdog_secs: u32) -> Guards {
    unsafe {
        let ss = libc::stack_t {
            ss_sp: addr_of_mut!(ALT_STACK) as *mut libc::c_void,
            ss_flags: 0,
            ss_size: core::mem::size_of_val(&*addr_of!(ALT_STACK)),
        };
        assert_eq!(libc::sigaltstack(&ss, core::ptr::null_mut()), 0);
        for (i, &s) in SIGNALS.iter().enumerate() {
            let mut sa: libc::sigaction = core::mem::zeroed();
            sa.sa_sigaction = on_signal as *const () as usize;
            sa.sa_flags = libc::SA_SIGINFO | libc::SA_ONSTACK | libc::SA_NODEFER;
            libc::sigemptyset(&mut sa.sa_mask);
            let mut old: libc::sigaction = core::mem::zeroed();
            assert_eq!(libc::sigaction(s, &sa, &mut old), 0);
            OLD_ACTIONS[i] = Some(old);
        }
        let mut sa: libc::sigaction = core::mem::zeroed();
        sa.sa_sigaction = on_alarm as *const () as usize;
        libc::sigemptyset(&mut sa.sa_mask);
        libc::sigaction(libc::SIGALRM, &sa, core::ptr::null_mut());
        libc::alarm(watchdog_secs);
    }
    Guards
}

/// Re-arm the watchdog.
pub fn kick(watchdog_secs: u32) {
    unsafe {
        libc::alarm(watchdog_secs);
    }
}

impl Drop for Guards {
    fn drop(&mut self) {
        unsafe {
            libc::alarm(0);
            for (i, &s) in SIGNALS.iter().enumerate() {
                if let Some(old) = OLD_ACTIONS[i].take() {
                    libc::sigaction(s, &old, core::ptr::null_mut());
                }
            }
        }
    }
}

// ------------------------------------------------------------------------------------- self test

/// The hardware frame as the harness itself declares it (the self-test must not depend on the
/// crate's `InterruptStackFrame`, which is part of what C13 checks).
#[repr(C)]
struct RawFrame {
    rip: u64,
    cs: u64,
    flags: u64,
    rsp: u64,
    ss: u64,
}

/// Scalar volatile reads: the optimiser must not merge them into 16-byte aligned vector loads
/// (LLVM's alignment assumption for the by-value frame of an x86-interrupt function is off by 8).
unsafe fn selftest_record(f: &RawFrame, index: u64, err: Option<u64>) {
    let p = f as *const RawFrame as *const u64;
    let (rip, cs, flags, rsp, ss) = (
        core::ptr::read_volatile(p),
        core::ptr::read_volatile(p.add(1)),
        core::ptr::read_volatile(p.add(2)),
        core::ptr::read_volatile(p.add(3)),
        core::ptr::read_volatile(p.add(4)),
    );
    SEEN.calls += 1;
    SEEN.index = index;
    SEEN.err = err;
    SEEN.rip = rip;
    SEEN.cs = cs & 0xffff;
    SEEN.flags = flags;
    SEEN.rsp = rsp;
    SEEN.ss = ss & 0xffff;
    if LEAVE_BY_IRETQ {
        asm!(
            "push {ss}", "push {rsp}", "push {fl}", "push {cs}", "push {rip}", "iretq",
            ss = in(reg) ss, rsp = in(reg) rsp, fl = in(reg) flags, cs = in(reg) cs, rip = in(reg) rip,
            options(noreturn)
        );
    }
}

extern "x86-interrupt" fn selftest_plain(frame: RawFrame) {
    unsafe { selftest_record(&frame, 200, None) }
}

extern "x86-interrupt" fn selftest_err(frame: RawFrame, error_code: u64) {
    unsafe { selftest_record(&frame, 201, Some(error_code)) }
}

extern "x86-interrupt" fn selftest_crash(_frame: RawFrame) {
    unsafe {
        core::ptr::write_volatile(8 as *mut u64, 1);
    }
}

/// The delivery mechanism on stubs of the harness itself (independent of the crate's macros):
/// a plain stub, an error-code stub, both leave modes, every landing pad, and the crash guard.
pub fn selftest() -> Result<(), String> {
    let mut n = 0u64;
    for pad in 0..N_PADS {
        for (has_err, leave) in [(false, false), (true, false), (false, true), (true, true)] {
            n += 1;
            let flags = BASE_FLAGS | (FREE_FLAGS & (0x9e37_79b9_7f4a_7c15u64.wrapping_mul(n) >> 7));
            let req = Request {
                handler: if has_err { selftest_err as *const () as usize as u64 } else { selftest_plain as *const () as usize as u64 },
                has_err,
                err: 0xdead_0000_0000_0000 | n,
                flags,
                rsp_off: 8 * n + (n % 3),
                frame_gap: 24 * (n % 5),
                pad,
                cs: USER_CS,
                ss: USER_SS,
            };
            let o = deliver(200 + has_err as u8, &req, leave);
            let ok = o.crashed == 0
                && o.seen.calls == 1
                && o.seen.index == 200 + has_err as u64
                && o.seen.err == if has_err { Some(req.err) } else { None }
                && o.seen_rip_rel == 8 * pad
                && o.seen.cs == USER_CS
                && o.seen.ss == USER_SS
                && o.seen.flags == flags
                && o.seen_rsp_rel == req.rsp_off
                && o.land_pad == pad
                && o.land_rsp_rel == req.rsp_off
                && o.land_flags == flags
                && o.frame_aligned;
            if !ok {
                return Err(format!("delivery self-test failed: req {:?} leave {} -> {:?}", req, leave, o));
            }
        }
    }
    // the crash guard: a stub that faults becomes an outcome, not a dead process
    let req = Request {
        handler: selftest_crash as *const () as usize as u64,
        flags: BASE_FLAGS,
        cs: USER_CS,
        ss: USER_SS,
        ..Default::default()
    };
    unsafe { QUIET = true };
    let o = deliver(202, &req, false);
    unsafe { QUIET = false };
    if o.crashed != libc::SIGSEGV as u64 {
        return Err(format!("crash guard self-test failed: {:?}", o));
    }
    Ok(())
}
