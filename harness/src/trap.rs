//! Trap-and-emulate for privileged instructions (DESIGN.md section 5.3).
//!
//! The crate's wrappers execute `cli`, `in/out`, `mov crN`, `wrmsr`, `invlpg`, ... for real. In a
//! user process each of them raises #GP or #UD, which Linux delivers as SIGSEGV (si_code
//! SI_KERNEL) or SIGILL. The handler installed here decodes the instruction at the faulting RIP
//! (only the encodings the crate can emit, with full REX/ModRM/SIB decoding because the register
//! allocation of `asm!` operands differs between builds), records an [`Event`] holding the
//! mnemonic and the operand values taken from the saved general registers / the decoded memory
//! operand, applies the instruction to an emulated register file ([`Regs`]), writes results of
//! reads back into the saved registers, advances RIP and returns.
//!
//! An instruction the decoder does not know is never skipped silently: it is recorded as
//! `Kind::Unexpected` (so the case's trace cannot equal any model trace) and then stepped over
//! with a best-effort length; if no length can be determined, or the fault is a genuine memory
//! fault, the process terminates with a message on stderr (exit code 70), which `run.py`
//! reports as a broken correspondence.
//!
//! The handler only uses async-signal-safe operations: fixed-size static buffers, atomics,
//! `write(2)` and `_exit(2)`.

#![allow(static_mut_refs)]

use core::ptr::{addr_of, addr_of_mut};
use core::sync::atomic::Ordering;
use libc::{c_int, c_void, siginfo_t, ucontext_t};

#[derive(Clone, Copy, Debug, PartialEq, Eq)]
#[repr(u8)]
pub enum Kind {
    None = 0,
    Cli,
    Sti,
    Hlt,
    /// `in al/ax/eax, dx`: a = DX, b = value supplied by the device (masked to width), width.
    In,
    /// `out dx, al/ax/eax`: a = DX, b = accumulator masked to width, width.
    Out,
    /// `mov r64, crN`: a = N, b = value read, c = GPR number.
    RdCr,
    /// `mov crN, r64`: a = N, b = value written, c = GPR number.
    WrCr,
    RdDr,
    WrDr,
    /// a = ECX, b = EAX returned, c = EDX returned.
    Rdmsr,
    /// a = ECX, b = EAX, c = EDX.
    Wrmsr,
    /// a = ECX, b = EAX, c = EDX.
    Xsetbv,
    /// a = effective address of the memory operand.
    Invlpg,
    /// a = value of the register operand (type), b = address of the descriptor, mem = 16 bytes.
    Invpcid,
    /// a = RAX, b = ECX, c = EDX.
    Invlpgb,
    Tlbsync,
    /// a = address of the operand, mem[0..10] = limit (2 bytes LE) + base (8 bytes LE).
    Lgdt,
    Lidt,
    /// a = selector.
    Ltr,
    /// `mov sreg, r/m16`: a = segment register number (0 es, 1 cs, 2 ss, 3 ds, 4 fs, 5 gs), b = selector.
    MovSreg,
    Swapgs,
    /// `retfq`: a = return RIP popped, b = CS value popped (64-bit stack slot), c = 1 if the
    /// return RIP is the address right behind the `retfq` (the crate's `55:` label).
    Retfq,
    /// Unknown encoding; `bytes` holds the first bytes at RIP.
    Unexpected,
}

#[derive(Clone, Copy, Debug)]
pub struct Event {
    pub kind: Kind,
    /// Instruction length in bytes (best effort for `Unexpected`).
    pub len: u8,
    /// Operand width in bits for `In`/`Out`.
    pub width: u8,
    /// Emulated interrupt flag when the instruction trapped.
    pub if_before: bool,
    pub bytes: [u8; 8],
    pub rip: u64,
    pub a: u64,
    pub b: u64,
    pub c: u64,
    pub mem: [u8; 16],
}

impl Event {
    const EMPTY: Event = Event {
        kind: Kind::None,
        len: 0,
        width: 0,
        if_before: false,
        bytes: [0; 8],
        rip: 0,
        a: 0,
        b: 0,
        c: 0,
        mem: [0; 16],
    };

    /// The instruction bytes as lower-case hex (at most 8 bytes).
    pub fn hex(&self) -> String {
        let n = (self.len as usize).min(8).max(1);
        self.bytes[..n].iter().map(|b| format!("{:02x}", b)).collect()
    }

    /// Protocol tokens of the event (see lean/X86Model/Driver/Trace.lean).
    pub fn tokens(&self) -> String {
        match self.kind {
            Kind::None => "none".into(),
            Kind::Cli => "cli".into(),
            Kind::Sti => "sti".into(),
            Kind::Hlt => "hlt".into(),
            Kind::In => format!("in{} {} {}", self.width, self.a, self.b),
            Kind::Out => format!("out{} {} {}", self.width, self.a, self.b),
            Kind::RdCr => format!("rdcr {} {}", self.a, self.b),
            Kind::WrCr => format!("wrcr {} {}", self.a, self.b),
            Kind::RdDr => format!("rddr {} {}", self.a, self.b),
            Kind::WrDr => format!("wrdr {} {}", self.a, self.b),
            Kind::Rdmsr => format!("rdmsr {} {} {}", self.a, self.b, self.c),
            Kind::Wrmsr => format!("wrmsr {} {} {}", self.a, self.b, self.c),
            Kind::Xsetbv => format!("xsetbv {} {} {}", self.a, self.b, self.c),
            Kind::Invlpg => format!("invlpg {}", self.a),
            Kind::Invpcid => format!(
                "invpcid {} {} {}",
                self.a,
                u64::from_le_bytes(self.mem[0..8].try_into().unwrap()),
                u64::from_le_bytes(self.mem[8..16].try_into().unwrap())
            ),
            Kind::Invlpgb => format!("invlpgb {} {} {}", self.a, self.b, self.c),
            Kind::Tlbsync => "tlbsync".into(),
            Kind::Lgdt | Kind::Lidt => format!(
                "{} {} {}",
                if self.kind == Kind::Lgdt { "lgdt" } else { "lidt" },
                u16::from_le_bytes(self.mem[0..2].try_into().unwrap()),
                u64::from_le_bytes(self.mem[2..10].try_into().unwrap())
            ),
            Kind::Ltr => format!("ltr {}", self.a),
            Kind::MovSreg => format!("movsreg {} {}", self.a, self.b),
            Kind::Swapgs => "swapgs".into(),
            Kind::Retfq => format!("retfq {} {}", self.b, self.c),
            Kind::Unexpected => format!("unexpected-{}", self.hex()),
        }
    }
}

/// Render a trace as protocol tokens: `<n> <event tokens>*`.
pub fn trace_tokens(evs: &[Event]) -> String {
    let mut s = format!("{}", evs.len());
    for e in evs {
        s.push(' ');
        s.push_str(&e.tokens());
    }
    s
}

pub const MSR_SLOTS: usize = 64;

/// The emulated register file. Set it before a case, read it afterwards.
#[derive(Clone, Copy, PartialEq, Eq, Debug)]
pub struct Regs {
    pub cr: [u64; 16],
    pub dr: [u64; 16],
    pub xcr: [u64; 4],
    /// MSRs that were explicitly set or written; every other MSR reads as `msr_default(index)`.
    pub msr_keys: [u32; MSR_SLOTS],
    pub msr_vals: [u64; MSR_SLOTS],
    pub msr_len: usize,
    pub msr_seed: u64,
    /// RFLAGS.IF
    pub if_flag: bool,
    pub sreg: [u16; 8],
    pub tr: u16,
    pub gdtr: [u8; 10],
    pub idtr: [u8; 10],
    /// The value the port "device" supplies to the next `in` (low bits for narrower reads).
    pub in_value: u32,
    /// The last value an `out` transferred and its port.
    pub out_value: u32,
    pub out_port: u16,
    pub hlt_count: u64,
    pub tlb_events: u64,
}

impl Regs {
    pub const ZERO: Regs = Regs {
        cr: [0; 16],
        dr: [0; 16],
        xcr: [0; 4],
        msr_keys: [0; MSR_SLOTS],
        msr_vals: [0; MSR_SLOTS],
        msr_len: 0,
        msr_seed: 0,
        if_flag: true,
        sreg: [0; 8],
        tr: 0,
        gdtr: [0; 10],
        idtr: [0; 10],
        in_value: 0,
        out_value: 0,
        out_port: 0,
        hlt_count: 0,
        tlb_events: 0,
    };

    /// Contents of an MSR that was never written: an arbitrary but reproducible word.
    pub fn msr_default(&self, idx: u32) -> u64 {
        let mut z = self.msr_seed ^ (idx as u64).wrapping_mul(0x9e37_79b9_7f4a_7c15);
        z = (z ^ (z >> 30)).wrapping_mul(0xbf58_476d_1ce4_e5b9);
        z = (z ^ (z >> 27)).wrapping_mul(0x94d0_49bb_1331_11eb);
        z ^ (z >> 31)
    }

    pub fn msr(&self, idx: u32) -> u64 {
        for i in 0..self.msr_len {
            if self.msr_keys[i] == idx {
                return self.msr_vals[i];
            }
        }
        self.msr_default(idx)
    }

    /// Returns false when the table is full.
    pub fn set_msr(&mut self, idx: u32, v: u64) -> bool {
        for i in 0..self.msr_len {
            if self.msr_keys[i] == idx {
                self.msr_vals[i] = v;
                return true;
            }
        }
        if self.msr_len == MSR_SLOTS {
            return false;
        }
        self.msr_keys[self.msr_len] = idx;
        self.msr_vals[self.msr_len] = v;
        self.msr_len += 1;
        true
    }
}

const CAP: usize = 1 << 16;
static mut BUF: [Event; CAP] = [Event::EMPTY; CAP];
static mut N: usize = 0;
static mut OVERFLOW: bool = false;
static mut ACTIVE: bool = false;
static mut ALLOW_STRAY: bool = false;
static mut STRAY: usize = 0;
static mut DEPTH: u32 = 0;
static mut INSTALLED: bool = false;
static mut UNEXPECTED: u64 = 0;
static mut TOTAL_TRAPS: u64 = 0;
static mut REGS: Regs = Regs::ZERO;

/// Optional handler for genuine memory faults (used by the software MMU): returns true when the
/// fault was resolved and the instruction may be restarted.
pub static mut MEMFAULT_HOOK: Option<unsafe fn(addr: u64, ctx: *mut c_void) -> bool> = None;

/// Access to the emulated register file (single-threaded harness).
pub fn regs() -> &'static mut Regs {
    unsafe { &mut *addr_of_mut!(REGS) }
}

const IF_BIT: u64 = 1 << 9;

/// Set the emulated interrupt flag and make it visible to `rflags::read_raw` through the overlay hook.
pub fn set_if(on: bool) {
    regs().if_flag = on;
    sync_if(on);
}

pub fn get_if() -> bool {
    regs().if_flag
}

#[inline]
fn sync_if(on: bool) {
    use x86_64::verif_hooks::{RFLAGS_OVERLAY_MASK, RFLAGS_OVERLAY_VALUE};
    RFLAGS_OVERLAY_MASK.fetch_or(IF_BIT, Ordering::Relaxed);
    if on {
        RFLAGS_OVERLAY_VALUE.fetch_or(IF_BIT, Ordering::Relaxed);
    } else {
        RFLAGS_OVERLAY_VALUE.fetch_and(!IF_BIT, Ordering::Relaxed);
    }
}

pub fn total_traps() -> u64 {
    unsafe { TOTAL_TRAPS }
}

pub fn unexpected_count() -> u64 {
    unsafe { UNEXPECTED }
}

// x86 register number -> index into gregs
const GMAP: [usize; 16] = [
    libc::REG_RAX as usize,
    libc::REG_RCX as usize,
    libc::REG_RDX as usize,
    libc::REG_RBX as usize,
    libc::REG_RSP as usize,
    libc::REG_RBP as usize,
    libc::REG_RSI as usize,
    libc::REG_RDI as usize,
    libc::REG_R8 as usize,
    libc::REG_R9 as usize,
    libc::REG_R10 as usize,
    libc::REG_R11 as usize,
    libc::REG_R12 as usize,
    libc::REG_R13 as usize,
    libc::REG_R14 as usize,
    libc::REG_R15 as usize,
];

unsafe fn put_hex(buf: &mut [u8], pos: &mut usize, v: u64, digits: usize) {
    for k in (0..digits).rev() {
        let d = ((v >> (4 * k)) & 0xf) as u8;
        if *pos < buf.len() {
            buf[*pos] = if d < 10 { b'0' + d } else { b'a' + d - 10 };
            *pos += 1;
        }
    }
}

/// Async-signal-safe termination with a message.
unsafe fn fatal(msg: &str, rip: u64, addr: u64) -> ! {
    let mut buf = [0u8; 256];
    let mut pos = 0usize;
    for &b in b"trap: FATAL: " {
        buf[pos] = b;
        pos += 1;
    }
    for &b in msg.as_bytes() {
        if pos < 150 {
            buf[pos] = b;
            pos += 1;
        }
    }
    for &b in b" rip=0x" {
        buf[pos] = b;
        pos += 1;
    }
    put_hex(&mut buf, &mut pos, rip, 16);
    for &b in b" addr=0x" {
        buf[pos] = b;
        pos += 1;
    }
    put_hex(&mut buf, &mut pos, addr, 16);
    buf[pos] = b'\n';
    pos += 1;
    libc::write(2, buf.as_ptr() as *const c_void, pos);
    libc::_exit(70);
}

struct Dec {
    rex: u8,
    opsize16: bool,
    rep: u8,
    /// offset of the first opcode byte
    op: usize,
}

#[inline]
unsafe fn byte(rip: u64, i: usize) -> u8 {
    core::ptr::read_volatile((rip as *const u8).add(i))
}

/// Decode a ModRM memory operand starting at `rip + pos` (the ModRM byte). Returns the
/// effective address and the number of bytes of ModRM + SIB + displacement. `tail` is the
/// number of instruction bytes following the displacement (immediates; 0 for all our forms),
/// needed for RIP-relative addressing.
unsafe fn modrm_mem(g: &[i64; 23], rip: u64, pos: usize, rex: u8, tail: usize) -> (u64, usize) {
    let modrm = byte(rip, pos);
    let md = modrm >> 6;
    let rm = (modrm & 7) as usize;
    let rexb = ((rex & 1) as usize) << 3;
    let rexx = (((rex >> 1) & 1) as usize) << 3;
    let mut n = 1usize;
    let mut addr: u64;
    let mut rip_rel = false;
    if rm == 4 {
        let sib = byte(rip, pos + 1);
        n += 1;
        let scale = sib >> 6;
        let index = (((sib >> 3) & 7) as usize) | rexx;
        let base = ((sib & 7) as usize) | rexb;
        addr = 0;
        if (sib & 7) == 5 && md == 0 {
            // disp32, no base
            let d = read_i32(rip, pos + n);
            n += 4;
            addr = d as i64 as u64;
        } else {
            addr = addr.wrapping_add(g[GMAP[base]] as u64);
        }
        if index != 4 {
            addr = addr.wrapping_add((g[GMAP[index]] as u64) << scale);
        }
    } else if rm == 5 && md == 0 {
        let d = read_i32(rip, pos + n);
        n += 4;
        addr = d as i64 as u64;
        rip_rel = true;
    } else {
        addr = g[GMAP[rm | rexb]] as u64;
    }
    if md == 1 {
        let d = byte(rip, pos + n) as i8;
        n += 1;
        addr = addr.wrapping_add(d as i64 as u64);
    } else if md == 2 {
        let d = read_i32(rip, pos + n);
        n += 4;
        addr = addr.wrapping_add(d as i64 as u64);
    }
    if rip_rel {
        addr = addr.wrapping_add(rip.wrapping_add((pos + n + tail) as u64));
    }
    (addr, n)
}

unsafe fn read_i32(rip: u64, pos: usize) -> i32 {
    let mut b = [0u8; 4];
    for k in 0..4 {
        b[k] = byte(rip, pos + k);
    }
    i32::from_le_bytes(b)
}

/// Length of ModRM + SIB + displacement at `rip + pos` (register or memory form).
unsafe fn modrm_len(rip: u64, pos: usize) -> usize {
    let modrm = byte(rip, pos);
    let md = modrm >> 6;
    let rm = modrm & 7;
    if md == 3 {
        return 1;
    }
    let mut n = 1;
    if rm == 4 {
        let sib = byte(rip, pos + 1);
        n += 1;
        if (sib & 7) == 5 && md == 0 {
            n += 4;
        }
    } else if rm == 5 && md == 0 {
        n += 4;
    }
    if md == 1 {
        n += 1;
    } else if md == 2 {
        n += 4;
    }
    n
}

/// Best-effort length of an instruction the decoder has no semantics for. 0 = unknown.
unsafe fn guess_len(rip: u64, d: &Dec) -> usize {
    let op = byte(rip, d.op);
    match op {
        0xf4 | 0xfa | 0xfb | 0xec..=0xef | 0xcc | 0xcf | 0xcb | 0xc3 | 0x9c | 0x9d | 0x90 | 0xf5 | 0xf8..=0xf9 | 0xfc | 0xfd => d.op + 1,
        0xcd | 0xe4..=0xe7 => d.op + 2,
        0x8c | 0x8e | 0x88..=0x8b | 0x63 => d.op + 1 + modrm_len(rip, d.op + 1),
        0x0f => {
            let op2 = byte(rip, d.op + 1);
            match op2 {
                0x05..=0x09 | 0x0b | 0x30..=0x35 | 0x37 | 0x77 | 0xa0..=0xa2 | 0xa8..=0xaa | 0xc8..=0xcf => d.op + 2,
                0x80..=0x8f => d.op + 6,
                0x38 => d.op + 3 + modrm_len(rip, d.op + 3),
                0x3a => d.op + 3 + modrm_len(rip, d.op + 3) + 1,
                _ => d.op + 2 + modrm_len(rip, d.op + 2),
            }
        }
        _ => 0,
    }
}

unsafe extern "C" fn handler(sig: c_int, info: *mut siginfo_t, ctx: *mut c_void) {
    let uc = ctx as *mut ucontext_t;
    let g: &mut [i64; 23] = &mut (*uc).uc_mcontext.gregs;
    let rip = g[libc::REG_RIP as usize] as u64;
    let code = (*info).si_code;
    DEPTH += 1;
    if DEPTH > 1 {
        fatal("fault inside the trap handler", rip, (*info).si_addr() as u64);
    }
    if sig == libc::SIGSEGV && (code == 1 || code == 2) {
        // SEGV_MAPERR / SEGV_ACCERR: a genuine memory fault, not a privileged instruction
        let addr = (*info).si_addr() as u64;
        if let Some(h) = *addr_of!(MEMFAULT_HOOK) {
            if h(addr, ctx) {
                DEPTH -= 1;
                return;
            }
        }
        fatal("memory fault (not a privileged instruction)", rip, addr);
    }
    if !ACTIVE {
        // An instruction that the compiler moved out of the observed call (an `asm!` block wrongly declared `pure`
        // may be hoisted above or sunk below the volatile writes that delimit `run`, merged with a twin or dropped):
        // count it and emulate it, so that the protocol line of the call carries `stray <n>` and is reported with its
        // missing / misplaced access, instead of the harness dying without a replay.
        if ALLOW_STRAY {
            STRAY += 1;
        } else {
            fatal("privileged-instruction trap outside trap::run", rip, 0);
        }
    }
    TOTAL_TRAPS += 1;
    let r = &mut *addr_of_mut!(REGS);

    // prefixes
    let mut d = Dec { rex: 0, opsize16: false, rep: 0, op: 0 };
    let mut i = 0usize;
    loop {
        let b = byte(rip, i);
        if b == 0x66 {
            d.opsize16 = true;
            i += 1;
        } else if b == 0xf3 || b == 0xf2 {
            d.rep = b;
            i += 1;
        } else if (0x40..=0x4f).contains(&b) {
            d.rex = b;
            i += 1;
            break;
        } else {
            break;
        }
        if i > 4 {
            break;
        }
    }
    d.op = i;
    let rexr = (((d.rex >> 2) & 1) as usize) << 3;
    let rexb = ((d.rex & 1) as usize) << 3;

    let mut ev = Event::EMPTY;
    ev.rip = rip;
    ev.if_before = r.if_flag;
    for k in 0..8 {
        ev.bytes[k] = byte(rip, k);
    }
    let rax = g[libc::REG_RAX as usize] as u64;
    let rcx = g[libc::REG_RCX as usize] as u64;
    let rdx = g[libc::REG_RDX as usize] as u64;
    let op = byte(rip, i);
    let mut len = 0usize;
    let no_prefix = i == 0;
    match op {
        0xfa if no_prefix => {
            ev.kind = Kind::Cli;
            r.if_flag = false;
            sync_if(false);
            len = 1;
        }
        0xfb if no_prefix => {
            ev.kind = Kind::Sti;
            r.if_flag = true;
            sync_if(true);
            len = 1;
        }
        0xf4 if no_prefix => {
            ev.kind = Kind::Hlt;
            r.hlt_count += 1;
            len = 1;
        }
        0xec | 0xed if d.rex == 0 && d.rep == 0 => {
            ev.kind = Kind::In;
            ev.a = rdx & 0xffff;
            let (w, mask) = if op == 0xec && !d.opsize16 {
                (8u8, 0xffu64)
            } else if op == 0xed && d.opsize16 {
                (16, 0xffff)
            } else if op == 0xed {
                (32, 0xffff_ffff)
            } else {
                (0, 0)
            };
            if w != 0 {
                ev.width = w;
                let v = (r.in_value as u64) & mask;
                ev.b = v;
                // 8/16-bit destinations keep the upper bits, a 32-bit destination zero-extends
                let new = if w == 32 { v } else { (rax & !mask) | v };
                g[libc::REG_RAX as usize] = new as i64;
                len = i + 1;
            } else {
                ev.kind = Kind::None;
            }
        }
        0xee | 0xef if d.rex == 0 && d.rep == 0 => {
            ev.kind = Kind::Out;
            ev.a = rdx & 0xffff;
            let (w, mask) = if op == 0xee && !d.opsize16 {
                (8u8, 0xffu64)
            } else if op == 0xef && d.opsize16 {
                (16, 0xffff)
            } else if op == 0xef {
                (32, 0xffff_ffff)
            } else {
                (0, 0)
            };
            if w != 0 {
                ev.width = w;
                ev.b = rax & mask;
                r.out_value = ev.b as u32;
                r.out_port = ev.a as u16;
                len = i + 1;
            } else {
                ev.kind = Kind::None;
            }
        }
        0x8e if d.rep == 0 => {
            // `mov ds, ax` is assembled with a (meaningless) 66 prefix for a 16-bit register name
            let modrm = byte(rip, i + 1);
            let sreg = ((modrm >> 3) & 7) as usize;
            let val: u64;
            let n;
            if modrm >> 6 == 3 {
                val = (g[GMAP[(modrm & 7) as usize | rexb]] as u64) & 0xffff;
                n = 1;
            } else {
                let (ea, k) = modrm_mem(g, rip, i + 1, d.rex, 0);
                val = core::ptr::read_unaligned(ea as *const u16) as u64;
                n = k;
            }
            if sreg < 6 && sreg != 1 {
                ev.kind = Kind::MovSreg;
                ev.a = sreg as u64;
                ev.b = val;
                r.sreg[sreg] = val as u16;
                len = i + 1 + n;
            }
        }
        0xcb if d.rex == 0x48 && !d.opsize16 => {
            // retfq: pop RIP, pop CS (64-bit slots)
            let rsp = g[libc::REG_RSP as usize] as u64;
            let new_rip = core::ptr::read_unaligned(rsp as *const u64);
            let cs = core::ptr::read_unaligned((rsp + 8) as *const u64);
            ev.kind = Kind::Retfq;
            ev.a = new_rip;
            ev.b = cs;
            ev.c = (new_rip == rip + 2) as u64;
            ev.len = 2;
            r.sreg[1] = cs as u16;
            g[libc::REG_RSP as usize] = (rsp + 16) as i64;
            g[libc::REG_RIP as usize] = new_rip as i64;
            push(ev);
            DEPTH -= 1;
            return;
        }
        0x0f if !d.opsize16 || byte(rip, i + 1) == 0x38 => {
            let op2 = byte(rip, i + 1);
            match op2 {
                0x20 | 0x21 | 0x22 | 0x23 if d.rep == 0 => {
                    let modrm = byte(rip, i + 2);
                    let n = (((modrm >> 3) & 7) as usize) | rexr;
                    let gpr = ((modrm & 7) as usize) | rexb;
                    ev.a = n as u64;
                    ev.c = gpr as u64;
                    match op2 {
                        0x20 => {
                            ev.kind = Kind::RdCr;
                            ev.b = r.cr[n];
                            g[GMAP[gpr]] = ev.b as i64;
                        }
                        0x22 => {
                            ev.kind = Kind::WrCr;
                            ev.b = g[GMAP[gpr]] as u64;
                            // MOV to CR3 does not store bit 63 (it only selects "no flush")
                            r.cr[n] = if n == 3 { ev.b & !(1u64 << 63) } else { ev.b };
                        }
                        0x21 => {
                            ev.kind = Kind::RdDr;
                            ev.b = r.dr[n];
                            g[GMAP[gpr]] = ev.b as i64;
                        }
                        _ => {
                            ev.kind = Kind::WrDr;
                            ev.b = g[GMAP[gpr]] as u64;
                            r.dr[n] = ev.b;
                        }
                    }
                    len = i + 3;
                }
                0x30 if d.rep == 0 && d.rex == 0 => {
                    ev.kind = Kind::Wrmsr;
                    ev.a = rcx & 0xffff_ffff;
                    ev.b = rax & 0xffff_ffff;
                    ev.c = rdx & 0xffff_ffff;
                    if !r.set_msr(ev.a as u32, (ev.c << 32) | ev.b) {
                        fatal("emulated MSR table full", rip, ev.a);
                    }
                    len = i + 2;
                }
                0x32 if d.rep == 0 && d.rex == 0 => {
                    ev.kind = Kind::Rdmsr;
                    ev.a = rcx & 0xffff_ffff;
                    let v = r.msr(ev.a as u32);
                    ev.b = v & 0xffff_ffff;
                    ev.c = v >> 32;
                    g[libc::REG_RAX as usize] = ev.b as i64;
                    g[libc::REG_RDX as usize] = ev.c as i64;
                    len = i + 2;
                }
                0x01 if d.rep == 0 => {
                    let modrm = byte(rip, i + 2);
                    match modrm {
                        0xd1 => {
                            ev.kind = Kind::Xsetbv;
                            ev.a = rcx & 0xffff_ffff;
                            ev.b = rax & 0xffff_ffff;
                            ev.c = rdx & 0xffff_ffff;
                            r.xcr[(ev.a & 3) as usize] = (ev.c << 32) | ev.b;
                            len = i + 3;
                        }
                        0xf8 => {
                            ev.kind = Kind::Swapgs;
                            let gs = r.msr(0xC000_0101);
                            let kgs = r.msr(0xC000_0102);
                            r.set_msr(0xC000_0101, kgs);
                            r.set_msr(0xC000_0102, gs);
                            len = i + 3;
                        }
                        0xfe => {
                            ev.kind = Kind::Invlpgb;
                            ev.a = rax;
                            ev.b = rcx & 0xffff_ffff;
                            ev.c = rdx & 0xffff_ffff;
                            r.tlb_events += 1;
                            len = i + 3;
                        }
                        0xff => {
                            ev.kind = Kind::Tlbsync;
                            r.tlb_events += 1;
                            len = i + 3;
                        }
                        _ if modrm >> 6 != 3 => {
                            let reg = (modrm >> 3) & 7;
                            let (ea, n) = modrm_mem(g, rip, i + 2, d.rex, 0);
                            match reg {
                                7 => {
                                    ev.kind = Kind::Invlpg;
                                    ev.a = ea;
                                    r.tlb_events += 1;
                                    len = i + 2 + n;
                                }
                                2 | 3 => {
                                    ev.kind = if reg == 2 { Kind::Lgdt } else { Kind::Lidt };
                                    ev.a = ea;
                                    for k in 0..10 {
                                        ev.mem[k] = core::ptr::read_volatile((ea as *const u8).add(k));
                                    }
                                    let dst = if reg == 2 { &mut r.gdtr } else { &mut r.idtr };
                                    dst.copy_from_slice(&ev.mem[0..10]);
                                    len = i + 2 + n;
                                }
                                _ => {}
                            }
                        }
                        _ => {}
                    }
                }
                0x00 if d.rep == 0 => {
                    let modrm = byte(rip, i + 2);
                    if (modrm >> 3) & 7 == 3 {
                        let val: u64;
                        let n;
                        if modrm >> 6 == 3 {
                            val = (g[GMAP[(modrm & 7) as usize | rexb]] as u64) & 0xffff;
                            n = 1;
                        } else {
                            let (ea, k) = modrm_mem(g, rip, i + 2, d.rex, 0);
                            val = core::ptr::read_unaligned(ea as *const u16) as u64;
                            n = k;
                        }
                        ev.kind = Kind::Ltr;
                        ev.a = val;
                        r.tr = val as u16;
                        len = i + 2 + n;
                    }
                }
                0x38 if d.opsize16 && d.rep == 0 && byte(rip, i + 2) == 0x82 => {
                    let modrm = byte(rip, i + 3);
                    if modrm >> 6 != 3 {
                        let reg = (((modrm >> 3) & 7) as usize) | rexr;
                        let (ea, n) = modrm_mem(g, rip, i + 3, d.rex, 0);
                        ev.kind = Kind::Invpcid;
                        ev.a = g[GMAP[reg]] as u64;
                        ev.b = ea;
                        ev.c = reg as u64;
                        for k in 0..16 {
                            ev.mem[k] = core::ptr::read_volatile((ea as *const u8).add(k));
                        }
                        r.tlb_events += 1;
                        len = i + 3 + n;
                    }
                }
                _ => {}
            }
        }
        _ => {}
    }
    if len == 0 || ev.kind == Kind::None {
        ev.kind = Kind::Unexpected;
        UNEXPECTED += 1;
        len = guess_len(rip, &d);
        if len == 0 {
            ev.len = 8;
            push(ev);
            fatal("unexpected instruction, cannot determine its length", rip, u64::from_be_bytes(ev.bytes));
        }
    }
    ev.len = len as u8;
    push(ev);
    g[libc::REG_RIP as usize] = rip.wrapping_add(len as u64) as i64;
    DEPTH -= 1;
}

#[inline]
unsafe fn push(ev: Event) {
    if N < CAP {
        BUF[N] = ev;
        N += 1;
    } else {
        OVERFLOW = true;
    }
}

/// Install the SIGSEGV/SIGILL handler (idempotent).
pub fn install() {
    unsafe {
        if INSTALLED {
            return;
        }
        let mut sa: libc::sigaction = core::mem::zeroed();
        sa.sa_sigaction = handler as *const () as usize;
        sa.sa_flags = libc::SA_SIGINFO | libc::SA_NODEFER;
        libc::sigemptyset(&mut sa.sa_mask);
        if libc::sigaction(libc::SIGSEGV, &sa, core::ptr::null_mut()) != 0
            || libc::sigaction(libc::SIGILL, &sa, core::ptr::null_mut()) != 0
        {
            eprintln!("trap: sigaction failed");
            std::process::exit(2);
        }
        INSTALLED = true;
    }
}

/// Outcome of one trapped run.
pub struct Run<T> {
    /// `None` when the closure panicked.
    pub value: Option<T>,
    pub events: Vec<Event>,
    /// More events than the buffer holds (the trace is truncated).
    pub overflow: bool,
}

impl<T> Run<T> {
    pub fn unexpected(&self) -> bool {
        self.overflow || self.events.iter().any(|e| e.kind == Kind::Unexpected)
    }
}

/// Run `f` with trapping enabled and return its result together with the recorded events.
/// Tolerate (and count) privileged instructions trapped outside a `run` window; see the handler.
pub fn allow_stray(on: bool) {
    unsafe { core::ptr::write_volatile(addr_of_mut!(ALLOW_STRAY), on) }
}

/// Instructions trapped outside any `run` window since the last call.
pub fn take_stray() -> usize {
    unsafe {
        let n = core::ptr::read_volatile(addr_of!(STRAY));
        core::ptr::write_volatile(addr_of_mut!(STRAY), 0);
        n
    }
}

pub fn run<T>(f: impl FnOnce() -> T) -> Run<T> {
    install();
    unsafe {
        N = 0;
        OVERFLOW = false;
        core::ptr::write_volatile(addr_of_mut!(ACTIVE), true);
    }
    core::sync::atomic::compiler_fence(Ordering::SeqCst);
    let value = crate::out::guard(f);
    core::sync::atomic::compiler_fence(Ordering::SeqCst);
    unsafe {
        core::ptr::write_volatile(addr_of_mut!(ACTIVE), false);
        let n = core::ptr::read_volatile(addr_of!(N));
        let events = BUF[..n].to_vec();
        Run { value, events, overflow: OVERFLOW }
    }
}

/// Exercise the decoder on hand-encoded instructions with awkward register choices (REX.B,
/// REX.R, SIB, disp8/disp32 forms) so that a decoding mistake is found here and not as a
/// spurious disagreement. Returns a description of the first problem.
pub fn selftest() -> Result<(), String> {
    use core::arch::asm;
    let saved = *regs();
    let mut errs: Vec<String> = Vec::new();
    let mut check = |name: &str, ok: bool| {
        if !ok {
            errs.push(name.to_string());
        }
    };
    *regs() = Regs::ZERO;
    regs().cr[0] = 0x1111_2222_3333_4444;
    regs().cr[3] = 0xabc000;
    regs().cr[8] = 5;
    regs().dr[7] = 0x400;
    regs().in_value = 0xdead_beef;
    regs().set_msr(0xc000_0080, 0x0123_4567_89ab_cdef);

    // mov rax, cr0 / mov r9, cr3 / mov cr4, r13 / mov r10, dr7 / mov dr0, rsi / mov r11, cr8
    let (a, b, c, e): (u64, u64, u64, u64);
    let r = run(|| unsafe {
        let (a, b, c, e): (u64, u64, u64, u64);
        asm!("mov rax, cr0", "mov r9, cr3", "mov cr4, r13", "mov r10, dr7", "mov dr0, rsi", "mov r11, cr8",
            out("rax") a, out("r9") b, in("r13") 0x5555u64, out("r10") c, in("rsi") 0x7777u64, out("r11") e,
            options(nostack, preserves_flags));
        (a, b, c, e)
    });
    (a, b, c, e) = r.value.unwrap_or((0, 0, 0, 0));
    check("mov rax,cr0 value", a == 0x1111_2222_3333_4444);
    check("mov r9,cr3 value", b == 0xabc000);
    check("mov r10,dr7 value", c == 0x400);
    check("mov r11,cr8 value", e == 5);
    check("mov cr4,r13 applied", regs().cr[4] == 0x5555);
    check("mov dr0,rsi applied", regs().dr[0] == 0x7777);
    check("mov cr/dr event count", r.events.len() == 6 && !r.unexpected());
    if r.events.len() == 6 {
        check("ev0 rdcr 0", r.events[0].kind == Kind::RdCr && r.events[0].a == 0 && r.events[0].hex() == "0f20c0");
        check("ev1 rdcr 3", r.events[1].kind == Kind::RdCr && r.events[1].a == 3 && r.events[1].c == 9);
        check("ev2 wrcr 4", r.events[2].kind == Kind::WrCr && r.events[2].a == 4 && r.events[2].b == 0x5555);
        check("ev3 rddr 7", r.events[3].kind == Kind::RdDr && r.events[3].a == 7);
        check("ev4 wrdr 0", r.events[4].kind == Kind::WrDr && r.events[4].a == 0 && r.events[4].b == 0x7777);
        check("ev5 rdcr 8", r.events[5].kind == Kind::RdCr && r.events[5].a == 8);
    }

    // rdmsr / wrmsr / xsetbv
    let r = run(|| unsafe {
        let (lo, hi): (u32, u32);
        asm!("rdmsr", in("ecx") 0xc000_0080u32, out("eax") lo, out("edx") hi, options(nostack, preserves_flags));
        asm!("wrmsr", in("ecx") 0x277u32, in("eax") 0x89ab_cdefu32, in("edx") 0x0123_4567u32, options(nostack, preserves_flags));
        asm!("xsetbv", in("ecx") 0u32, in("eax") 7u32, in("edx") 0x4000_0000u32, options(nostack, preserves_flags));
        ((hi as u64) << 32) | lo as u64
    });
    check("rdmsr value", r.value == Some(0x0123_4567_89ab_cdef));
    check("wrmsr applied", regs().msr(0x277) == 0x0123_4567_89ab_cdef);
    check("xsetbv applied", regs().xcr[0] == 0x4000_0000_0000_0007);
    check("msr events", r.events.len() == 3 && r.events[0].kind == Kind::Rdmsr && r.events[1].kind == Kind::Wrmsr
        && r.events[1].a == 0x277 && r.events[1].b == 0x89ab_cdef && r.events[1].c == 0x0123_4567 && r.events[2].kind == Kind::Xsetbv);

    // invlpg with plain, SIB (rsp-less: r12 needs SIB), disp8 (r13 needs disp8), disp32 and index forms
    let r = run(|| unsafe {
        asm!("invlpg [rdi]", "invlpg [r12]", "invlpg [r13]", "invlpg [r8 + 0x12345]", "invlpg [rsi + 4*rcx + 8]", "invlpg [r12 + 8*r14 - 16]",
            in("rdi") 0x1000u64, in("r12") 0x7fff_ffff_f000u64, in("r13") 0xffff_8000_0000_0000u64, in("r8") 0x10_0000u64,
            in("rsi") 0x2000u64, in("rcx") 3u64, in("r14") 0x100u64, options(nostack, preserves_flags));
    });
    let want = [0x1000u64, 0x7fff_ffff_f000, 0xffff_8000_0000_0000, 0x10_0000 + 0x12345, 0x2000 + 12 + 8, 0x7fff_ffff_f000 + 0x800 - 16];
    check("invlpg count", r.events.len() == want.len() && !r.unexpected());
    for (k, w) in want.iter().enumerate() {
        if k < r.events.len() {
            check(&format!("invlpg operand {}", k), r.events[k].kind == Kind::Invlpg && r.events[k].a == *w);
        }
    }

    // in/out of all widths
    let r = run(|| unsafe {
        let (v8, v16, v32): (u8, u16, u32);
        asm!("in al, dx", out("al") v8, in("dx") 0x3f8u16, options(nostack, preserves_flags));
        asm!("in ax, dx", out("ax") v16, in("dx") 0xffffu16, options(nostack, preserves_flags));
        asm!("in eax, dx", out("eax") v32, in("dx") 0u16, options(nostack, preserves_flags));
        asm!("out dx, al", in("dx") 0x80u16, in("al") 0x5au8, options(nostack, preserves_flags));
        asm!("out dx, ax", in("dx") 0x81u16, in("ax") 0xa55au16, options(nostack, preserves_flags));
        asm!("out dx, eax", in("dx") 0x82u16, in("eax") 0x1234_a55au32, options(nostack, preserves_flags));
        (v8, v16, v32)
    });
    check("in values", r.value == Some((0xef, 0xbeef, 0xdead_beef)));
    let hexes = ["ec", "66ed", "ed", "ee", "66ef", "ef"];
    check("port event count", r.events.len() == 6 && !r.unexpected());
    for (k, h) in hexes.iter().enumerate() {
        if k < r.events.len() {
            check(&format!("port opcode {}", h), r.events[k].hex() == *h);
        }
    }
    if r.events.len() == 6 {
        check("in8 dx", r.events[0].a == 0x3f8 && r.events[0].width == 8);
        check("in16 dx", r.events[1].a == 0xffff && r.events[1].width == 16);
        check("out32", r.events[5].a == 0x82 && r.events[5].b == 0x1234_a55a && r.events[5].width == 32);
        check("out16", r.events[4].a == 0x81 && r.events[4].b == 0xa55a);
        check("out8", r.events[3].a == 0x80 && r.events[3].b == 0x5a);
    }

    // cli/sti/hlt, lgdt/lidt/ltr, mov sreg (faulting selectors), swapgs, invpcid, invlpgb, tlbsync
    let table: [u8; 10] = [0x34, 0x12, 1, 2, 3, 4, 5, 6, 7, 8];
    let desc: [u64; 2] = [0xabc, 0xffff_8000_0000_1000];
    set_if(true);
    let r = run(|| unsafe {
        asm!("cli", "sti", "hlt", options(nostack));
        asm!("lgdt [{}]", in(reg) &table, options(readonly, nostack, preserves_flags));
        asm!("lidt [r13]", in("r13") &table, options(readonly, nostack, preserves_flags));
        asm!("ltr {0:x}", in(reg) 0x28u16, options(nostack, preserves_flags));
        asm!("ltr r9w", in("r9") 0x30u64, options(nostack, preserves_flags));
        asm!("mov ds, {0:x}", in(reg) 0x1234u16, options(nostack, preserves_flags));
        asm!("mov gs, r10w", in("r10") 0xfff4u64, options(nostack, preserves_flags));
        asm!("swapgs", options(nostack, preserves_flags));
        asm!("invpcid {0}, [{1}]", in(reg) 1u64, in(reg) &desc, options(nostack, preserves_flags));
        asm!("invpcid r15, [r12]", in("r15") 3u64, in("r12") &desc, options(nostack, preserves_flags));
        asm!("invlpgb", in("rax") 0xffff_8000_0000_1007u64, in("ecx") 0x8000_0005u32, in("edx") 0x0abc_0012u32, options(nostack, preserves_flags));
        asm!("tlbsync", options(nostack, preserves_flags));
    });
    let kinds = [Kind::Cli, Kind::Sti, Kind::Hlt, Kind::Lgdt, Kind::Lidt, Kind::Ltr, Kind::Ltr, Kind::MovSreg, Kind::MovSreg,
        Kind::Swapgs, Kind::Invpcid, Kind::Invpcid, Kind::Invlpgb, Kind::Tlbsync];
    check("misc event count", r.events.len() == kinds.len() && !r.unexpected());
    if std::env::var("TRAP_DEBUG").is_ok() {
        for e in &r.events {
            eprintln!("  {:x} {} [{}]", e.rip, e.tokens(), e.hex());
        }
    }
    if r.events.len() == kinds.len() {
        for (k, kd) in kinds.iter().enumerate() {
            check(&format!("misc kind {}", k), r.events[k].kind == *kd);
        }
        check("cli if", r.events[0].if_before && !r.events[1].if_before && r.events[2].if_before);
        check("sti;hlt adjacent", r.events[2].rip == r.events[1].rip + 1);
        check("lgdt bytes", r.events[3].mem[..10] == table && r.events[3].a == &table as *const _ as u64);
        check("lidt bytes", r.events[4].mem[..10] == table);
        check("ltr sel", r.events[5].a == 0x28 && r.events[6].a == 0x30);
        check("mov ds", r.events[7].a == 3 && r.events[7].b == 0x1234);
        check("mov gs", r.events[8].a == 5 && r.events[8].b == 0xfff4);
        check("invpcid 1", r.events[10].a == 1 && r.events[10].mem[..8] == 0xabcu64.to_le_bytes());
        check("invpcid 2", r.events[11].a == 3 && r.events[11].mem[8..16] == 0xffff_8000_0000_1000u64.to_le_bytes());
        check("invlpgb regs", r.events[12].a == 0xffff_8000_0000_1007 && r.events[12].b == 0x8000_0005 && r.events[12].c == 0x0abc_0012);
    }
    check("if after", get_if());

    // an instruction the decoder has no semantics for must be flagged (clts = 0f 06)
    let r = run(|| unsafe {
        asm!("clts", options(nostack, preserves_flags));
    });
    check("unexpected flagged", r.unexpected() && r.events.len() == 1 && r.events[0].tokens() == "unexpected-0f06");

    *regs() = saved;
    set_if(saved.if_flag);
    if errs.is_empty() {
        Ok(())
    } else {
        Err(errs.join("; "))
    }
}
