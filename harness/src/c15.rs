//! C15 — descriptor encodings and the TSS / descriptor-table-pointer layouts.
//!
//! Raw descriptor words are obtained by matching on the `Descriptor` enum; layouts are measured
//! with `offset_of!`, `addr_of!` and by dumping the bytes of values with known field contents.

use crate::gen::Rng;
use crate::out::{guard, Out};
use crate::Tier;
use core::mem::{offset_of, size_of};
use x86_64::structures::gdt::{Descriptor, DescriptorFlags};
use x86_64::structures::tss::TaskStateSegment;
use x86_64::structures::DescriptorTablePointer;
use x86_64::VirtAddr;

fn fmt_desc(d: Option<Descriptor>) -> String {
    match d {
        None => "panic".into(),
        Some(Descriptor::UserSegment(v)) => format!("user {}", v),
        Some(Descriptor::SystemSegment(lo, hi)) => format!("sys {} {}", lo, hi),
    }
}

static STATIC_TSS: TaskStateSegment = TaskStateSegment::new();
static STATIC_TSS_ARRAY: [TaskStateSegment; 64] = [TaskStateSegment::new(); 64];

fn bytes_of<T>(v: &T) -> Vec<u8> {
    unsafe { core::slice::from_raw_parts(v as *const T as *const u8, size_of::<T>()).to_vec() }
}

fn fmt_bytes(b: &[u8]) -> String {
    b.iter().map(|x| x.to_string()).collect::<Vec<_>>().join(" ")
}

fn classify_ptr(p: u64) -> &'static str {
    if p == 0 {
        "zero"
    } else if p.count_ones() == 1 {
        "single-bit"
    } else if p.count_zeros() <= 1 {
        "all-ones/all-but-one"
    } else if p < (1 << 24) {
        "below-2^24"
    } else if p < (1 << 32) {
        "below-2^32"
    } else if p >= 0xffff_8000_0000_0000 {
        "upper-half"
    } else if p < (1 << 47) {
        "lower-half"
    } else {
        "noncanonical"
    }
}

pub fn run(out: &mut Out, rng: &mut Rng, tier: Tier) {
    // ---- TSS descriptor: the packing is a pure function of the pointer value
    let mut ptrs: Vec<u64> = vec![0, u64::MAX];
    for b in 0..64 {
        ptrs.push(1u64 << b); // each single bit: a misplaced base bit is visible
        ptrs.push(!(1u64 << b));
        ptrs.push((1u64 << b).wrapping_sub(1));
        ptrs.push((1u64 << b) | 1);
    }
    for k in [16u32, 24, 32, 40, 48, 56] {
        ptrs.push(0xffu64 << (k - 8)); // the byte below each field boundary
        ptrs.push(0xffu64.wrapping_shl(k)); // the byte above
        ptrs.push(0x0123_4567_89ab_cdefu64.rotate_left(k));
    }
    for _ in 0..tier.n(100_000, 10_000_000) {
        ptrs.push(match rng.below(4) {
            0 => rng.next(),
            1 => rng.canon(),
            _ => rng.word(),
        });
    }
    for p in ptrs {
        out.input_class(classify_ptr(p));
        let d = guard(|| unsafe { Descriptor::tss_segment_unchecked(p as *const TaskStateSegment) });
        out.emit("tss_desc", &[p], &fmt_desc(d), p != 0);
    }
    // the safe constructor on real statics
    {
        let p = &STATIC_TSS as *const TaskStateSegment as u64;
        let d = guard(|| Descriptor::tss_segment(&STATIC_TSS));
        out.emit("tss_desc_ref", &[p], &fmt_desc(d), true);
        for t in STATIC_TSS_ARRAY.iter() {
            let p = t as *const TaskStateSegment as u64;
            let d = guard(|| Descriptor::tss_segment(t));
            out.emit("tss_desc_ref", &[p], &fmt_desc(d), true);
        }
    }

    // ---- the six presets, the four constructors, the named flags
    let presets = [
        DescriptorFlags::KERNEL_DATA,
        DescriptorFlags::KERNEL_CODE32,
        DescriptorFlags::KERNEL_CODE64,
        DescriptorFlags::USER_DATA,
        DescriptorFlags::USER_CODE32,
        DescriptorFlags::USER_CODE64,
    ];
    for (k, f) in presets.iter().enumerate() {
        out.emit("desc_preset", &[k as u64], &f.bits().to_string(), true);
    }
    let ctors: [fn() -> Descriptor; 4] = [
        Descriptor::kernel_code_segment,
        Descriptor::kernel_data_segment,
        Descriptor::user_data_segment,
        Descriptor::user_code_segment,
    ];
    for (k, c) in ctors.iter().enumerate() {
        out.emit("desc_ctor", &[k as u64], &fmt_desc(guard(|| c())), true);
    }
    let flags = [
        DescriptorFlags::ACCESSED,
        DescriptorFlags::WRITABLE,
        DescriptorFlags::CONFORMING,
        DescriptorFlags::EXECUTABLE,
        DescriptorFlags::USER_SEGMENT,
        DescriptorFlags::DPL_RING_3,
        DescriptorFlags::PRESENT,
        DescriptorFlags::AVAILABLE,
        DescriptorFlags::LONG_MODE,
        DescriptorFlags::DEFAULT_SIZE,
        DescriptorFlags::GRANULARITY,
        DescriptorFlags::LIMIT_0_15,
        DescriptorFlags::LIMIT_16_19,
        DescriptorFlags::BASE_0_23,
        DescriptorFlags::BASE_24_31,
    ];
    for (k, f) in flags.iter().enumerate() {
        out.emit("desc_flag", &[k as u64], &f.bits().to_string(), true);
    }

    // ---- dpl() on arbitrary descriptors
    let mut words: Vec<u64> = vec![0, u64::MAX];
    for b in 0..64 {
        words.push(1u64 << b);
        words.push(!(1u64 << b));
    }
    for d in 0..4u64 {
        words.push(d << 45);
        words.push(!(3u64 << 45) | (d << 45));
        for f in presets.iter() {
            words.push((f.bits() & !(3u64 << 45)) | (d << 45));
        }
    }
    for _ in 0..tier.n(100_000, 3_000_000) {
        words.push(match rng.below(3) {
            0 => rng.next(),
            1 => rng.word(),
            _ => (rng.next() & !(3u64 << 45)) | (rng.below(4) << 45),
        });
    }
    for w in words {
        let hi = rng.next();
        let kind = rng.below(2);
        let d = if kind == 0 { Descriptor::UserSegment(w) } else { Descriptor::SystemSegment(w, hi) };
        out.input_class(match (w >> 45) & 3 {
            0 => "dpl0",
            1 => "dpl1",
            2 => "dpl2",
            _ => "dpl3",
        });
        let r = guard(|| d.dpl() as u16 as u64);
        let s = match r {
            Some(v) => format!("ok {}", v),
            None => "panic".into(),
        };
        out.emit("desc_dpl", &[kind, w, if kind == 0 { 0 } else { hi }], &s, w != 0);
    }

    // ---- TSS layout
    let t = TaskStateSegment::new();
    let base = &t as *const TaskStateSegment as usize;
    let new_iomap = { t.iomap_base } as u64;
    out.emit(
        "tss_layout",
        &[],
        &format!(
            "{} {} {} {} {}",
            offset_of!(TaskStateSegment, privilege_stack_table),
            offset_of!(TaskStateSegment, interrupt_stack_table),
            offset_of!(TaskStateSegment, iomap_base),
            size_of::<TaskStateSegment>(),
            new_iomap
        ),
        true,
    );
    out.emit(
        "tss_layout",
        &[],
        &format!(
            "{} {} {} {} {}",
            core::ptr::addr_of!(t.privilege_stack_table) as usize - base,
            core::ptr::addr_of!(t.interrupt_stack_table) as usize - base,
            core::ptr::addr_of!(t.iomap_base) as usize - base,
            bytes_of(&t).len(),
            { TaskStateSegment::default().iomap_base } as u64
        ),
        true,
    );
    // bytes of new(): every field as read back through the API, against the raw image
    {
        let rsp = { t.privilege_stack_table };
        let ist = { t.interrupt_stack_table };
        let mut args: Vec<u64> = rsp.iter().map(|v| v.as_u64()).collect();
        args.extend(ist.iter().map(|v| v.as_u64()));
        args.push(new_iomap);
        out.emit("tss_bytes", &args, &fmt_bytes(&bytes_of(&t)), true);
    }
    // bytes of TSS values with distinct contents in every public field
    for _ in 0..tier.n(2_000, 100_000) {
        let mut t = TaskStateSegment::new();
        let mut args: Vec<u64> = Vec::new();
        let mut rsp = [VirtAddr::zero(); 3];
        for r in rsp.iter_mut() {
            let a = rng.canon();
            *r = VirtAddr::new(a);
            args.push(a);
        }
        let mut ist = [VirtAddr::zero(); 7];
        for r in ist.iter_mut() {
            let a = rng.canon();
            *r = VirtAddr::new(a);
            args.push(a);
        }
        let io = rng.next() & 0xffff;
        t.privilege_stack_table = rsp;
        t.interrupt_stack_table = ist;
        t.iomap_base = io as u16;
        args.push(io);
        // Clone/Copy must preserve the image as well
        let t2 = t;
        out.emit("tss_bytes", &args, &fmt_bytes(&bytes_of(&t2)), true);
    }

    // ---- descriptor-table pointer layout
    let p = DescriptorTablePointer { limit: 0, base: VirtAddr::zero() };
    let pb = &p as *const DescriptorTablePointer as usize;
    out.emit(
        "dtp_layout",
        &[],
        &format!(
            "{} {} {}",
            offset_of!(DescriptorTablePointer, limit),
            offset_of!(DescriptorTablePointer, base),
            size_of::<DescriptorTablePointer>()
        ),
        true,
    );
    out.emit(
        "dtp_layout",
        &[],
        &format!(
            "{} {} {}",
            core::ptr::addr_of!(p.limit) as usize - pb,
            core::ptr::addr_of!(p.base) as usize - pb,
            bytes_of(&p).len()
        ),
        true,
    );
    for _ in 0..tier.n(2_000, 100_000) {
        let limit = match rng.below(4) {
            0 => 0xffff,
            1 => rng.below(8192) * 8 + 7,
            _ => rng.next() & 0xffff,
        };
        let base = rng.canon();
        let p = DescriptorTablePointer { limit: limit as u16, base: VirtAddr::new(base) };
        out.emit("dtp_bytes", &[limit, base], &fmt_bytes(&bytes_of(&p)), true);
    }
}
