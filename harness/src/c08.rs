//! C08 — page-table entries and page tables: raw words / raw bytes against the model.
//!
//! Entries: random setter sequences; after every call the raw `u64` (read through a pointer cast),
//! `addr()`, `flags().bits()`, `is_unused()`, `frame()` are printed.
//! Tables: the 4096 bytes of a `PageTable` are read/written directly; every slot is reached through
//! every access path (exhaustive: 512 slots x 6 read paths / 3 write paths).

use crate::gen::Rng;
use crate::out::{guard, Out};
use crate::Tier;
use core::mem::{align_of, size_of};
use x86_64::structures::paging::page_table::{PageTableEntry, PageTableFlags};
use x86_64::structures::paging::{PageTable, PageTableIndex, PhysFrame, Size4KiB};
use x86_64::PhysAddr;

const ADDR_FIELD: u64 = 0x000f_ffff_ffff_f000;
const FLAGDOM: u64 = 0xfff0_0000_0000_0fff;

fn raw_of(e: &PageTableEntry) -> u64 {
    assert_eq!(size_of::<PageTableEntry>(), 8);
    unsafe { core::ptr::read(e as *const PageTableEntry as *const u64) }
}

fn entry_from_raw(raw: u64) -> PageTableEntry {
    unsafe { core::mem::transmute::<u64, PageTableEntry>(raw) }
}

/// `raw addr flags unused frame|n`, every getter guarded.
fn observe(e: &PageTableEntry) -> String {
    let raw = raw_of(e);
    let obs = guard(|| {
        let a = e.addr().as_u64();
        let f = e.flags().bits();
        let u = e.is_unused();
        let fr = match e.frame() {
            Ok(fr) => fr.start_address().as_u64().to_string(),
            Err(_) => "n".to_string(),
        };
        format!("{} {} {} {}", a, f, u as u8, fr)
    });
    match obs {
        Some(s) => format!("{} {}", raw, s),
        None => format!("{} getter-panic", raw),
    }
}

/// A 4 KiB-aligned physical address (< 2^52), boundary-biased.
fn aligned_addr(rng: &mut Rng) -> u64 {
    match rng.below(10) {
        0 => 0,
        1 => ADDR_FIELD,
        2 => 1u64 << (12 + rng.below(40)),
        3 => ADDR_FIELD & !(1u64 << (12 + rng.below(40))),
        4 => 0x1000 * rng.below(4),
        5 => ADDR_FIELD - 0x1000 * rng.below(4),
        _ => rng.phys() & ADDR_FIELD,
    }
}

/// Flag bits: mostly inside the flag domain (bits 0-11, 52-63); some via `from_bits_truncate`
/// of a random word (may contain bit 12), some arbitrary (`from_bits_retain`).
fn flag_bits(rng: &mut Rng, out: &mut Out) -> PageTableFlags {
    match rng.below(20) {
        0 | 1 => {
            out.input_class("flags:truncate(random)");
            PageTableFlags::from_bits_truncate(rng.next())
        }
        2 => {
            out.input_class("flags:retain(random)");
            PageTableFlags::from_bits_retain(rng.word())
        }
        3 => {
            out.input_class("flags:bit12");
            PageTableFlags::PAT_HUGE_PAGE | PageTableFlags::from_bits_truncate(rng.next() & FLAGDOM & rng.next())
        }
        4 => {
            out.input_class("flags:empty");
            PageTableFlags::empty()
        }
        5 => {
            out.input_class("flags:all-domain");
            PageTableFlags::from_bits_truncate(FLAGDOM)
        }
        6 | 7 => {
            out.input_class("flags:single-bit");
            let k = rng.below(24);
            let bit = if k < 12 { k } else { 52 + (k - 12) };
            PageTableFlags::from_bits_truncate(1u64 << bit)
        }
        8 | 9 => {
            out.input_class("flags:present+few");
            PageTableFlags::PRESENT | PageTableFlags::from_bits_truncate(rng.next() & rng.next() & FLAGDOM)
        }
        _ => {
            out.input_class("flags:domain-random");
            PageTableFlags::from_bits_truncate(rng.next() & FLAGDOM)
        }
    }
}

fn entry_sequences(out: &mut Out, rng: &mut Rng, tier: Tier) {
    let e = PageTableEntry::new();
    out.emit("pte_new", &[], &format!("{} {}", raw_of(&e), e.is_unused() as u8), true);

    for _ in 0..tier.n(100_000, 1_000_000) {
        let e0 = match rng.below(10) {
            0 => rng.next(),
            1 => rng.word(),
            2 => (aligned_addr(rng)) | (rng.next() & FLAGDOM),
            _ => 0,
        };
        out.input_class(if e0 == 0 { "start:new" } else { "start:arbitrary-word" });
        let mut e = if e0 == 0 { PageTableEntry::new() } else { entry_from_raw(e0) };
        let n = 1 + rng.below(12);
        let mut args: Vec<u64> = vec![e0, n];
        let mut res = String::new();
        let mut nontrivial = false;
        for _ in 0..n {
            let kind = match rng.below(20) {
                0..=6 => 0u64,
                7..=10 => 1,
                11..=16 => 2,
                _ => 3,
            };
            let (a, f) = match kind {
                0 => {
                    let mut a = aligned_addr(rng);
                    if rng.chance(1, 8) {
                        // unaligned: must panic
                        a |= match rng.below(4) {
                            0 => 1,
                            1 => 0x800,
                            2 => 0xfff,
                            _ => 1 + rng.below(0xfff),
                        };
                        out.input_class("set_addr:unaligned");
                    } else {
                        out.input_class("set_addr:aligned");
                    }
                    let fl = flag_bits(rng, out);
                    let before = raw_of(&e);
                    let r = guard(|| e.set_addr(PhysAddr::new(a), fl));
                    // a panicking call must not have touched the entry
                    if r.is_none() && raw_of(&e) != before {
                        res.push_str("modified-by-panicking-call ");
                    }
                    (a, (fl.bits(), r.is_some()))
                }
                1 => {
                    let x = match rng.below(3) {
                        0 => aligned_addr(rng),
                        _ => rng.phys(),
                    };
                    let frame = PhysFrame::<Size4KiB>::containing_address(PhysAddr::new(x));
                    out.input_class("set_frame");
                    let fl = flag_bits(rng, out);
                    let r = guard(|| e.set_frame(frame, fl));
                    (frame.start_address().as_u64(), (fl.bits(), r.is_some()))
                }
                2 => {
                    out.input_class("set_flags");
                    let fl = flag_bits(rng, out);
                    let r = guard(|| e.set_flags(fl));
                    (0, (fl.bits(), r.is_some()))
                }
                _ => {
                    out.input_class("set_unused");
                    let r = guard(|| e.set_unused());
                    (0, (0, r.is_some()))
                }
            };
            let (fbits, ok) = f;
            args.extend_from_slice(&[kind, a, fbits]);
            if ok {
                res.push_str(&observe(&e));
                res.push(' ');
                if a != 0 || fbits != 0 {
                    nontrivial = true;
                }
            } else {
                res.push_str("p ");
            }
        }
        out.emit("pte_seq", &args, res.trim_end(), nontrivial);
    }
}

/// Same formula as `fillByte` in lean/X86Model/Driver/Entry.lean.
fn fill_byte(seed: u64, o: u64) -> u8 {
    (((o + 1).wrapping_mul(0x9E37_79B1).wrapping_add(seed.wrapping_mul(0x85EB_CA6B))) >> 16) as u8
}

fn table_bytes(t: &PageTable) -> Vec<u8> {
    unsafe { core::slice::from_raw_parts(t as *const PageTable as *const u8, 4096).to_vec() }
}

fn fill_table(t: &mut PageTable, seed: u64) {
    let p = t as *mut PageTable as *mut u8;
    for o in 0..4096u64 {
        unsafe { p.add(o as usize).write(fill_byte(seed, o)) };
    }
}

fn off_of(t: &PageTable, e: &PageTableEntry) -> u64 {
    (e as *const PageTableEntry as usize).wrapping_sub(t as *const PageTable as usize) as u64
}

fn api_word(e: &PageTableEntry) -> u64 {
    e.addr().as_u64() | e.flags().bits()
}

fn store(e: &mut PageTableEntry, v: u64) {
    e.set_addr(PhysAddr::new(v & ADDR_FIELD), PageTableFlags::from_bits_retain(v & !ADDR_FIELD));
}

fn fmt_off(r: Option<Option<u64>>) -> String {
    match r {
        None => "panic".into(),
        Some(None) => "none".into(),
        Some(Some(o)) => format!("ok {}", o),
    }
}

fn tables(out: &mut Out, rng: &mut Rng, tier: Tier) {
    // layout
    let mut boxed: Box<PageTable> = Box::new(PageTable::new());
    let t: &mut PageTable = &mut boxed;
    out.emit(
        "pt_layout",
        &[],
        &format!("{} {} {}", size_of::<PageTable>(), align_of::<PageTable>(), size_of::<PageTableEntry>()),
        true,
    );
    out.notes.insert(
        "pt_box_address_mod_4096".into(),
        format!("{}", (t as *const PageTable as usize) % 4096),
    );
    let stack_table = PageTable::new();
    out.notes.insert(
        "pt_stack_address_mod_4096".into(),
        format!("{}", (&stack_table as *const PageTable as usize) % 4096),
    );

    // new / zero / is_empty
    {
        let fresh: Box<PageTable> = Box::new(PageTable::new());
        let nz = table_bytes(&fresh).iter().filter(|b| **b != 0).count();
        out.emit("pt_new", &[], &format!("{} {}", nz, fresh.is_empty() as u8), true);
        let dflt: Box<PageTable> = Box::new(PageTable::default());
        let nz = table_bytes(&dflt).iter().filter(|b| **b != 0).count();
        out.emit("pt_new", &[], &format!("{} {}", nz, dflt.is_empty() as u8), true);
    }
    for seed in 0..tier.n(16, 256) {
        fill_table(t, seed);
        t.zero();
        let nz = table_bytes(t).iter().filter(|b| **b != 0).count();
        out.emit("pt_zero", &[seed], &format!("{} {}", nz, t.is_empty() as u8), true);
    }
    // is_empty: every byte of every slot matters (one non-zero byte anywhere => not empty)
    for i in 0..512u64 {
        for k in 0..8u64 {
            t.zero();
            let v = 1u64 << (8 * k + rng.below(8));
            let p = t as *mut PageTable as *mut u8;
            for (j, b) in v.to_le_bytes().iter().enumerate() {
                unsafe { p.add(8 * i as usize + j).write(*b) };
            }
            out.emit("pt_empty", &[i, v], &format!("{}", t.is_empty() as u8), true);
        }
        t.zero();
        out.emit("pt_empty", &[i, 0], &format!("{}", t.is_empty() as u8), true);
    }

    // where each access path points: byte offset of the reference it returns
    let seed = 1 + rng.below(1 << 20);
    fill_table(t, seed);
    for i in 0..512u64 {
        let idx = PageTableIndex::new(i as u16);
        let o0 = guard(|| Some(off_of(t, &t[i as usize])));
        out.emit("pt_off", &[0, i], &fmt_off(o0), true);
        let o1 = guard(|| Some(off_of(t, &t[idx])));
        out.emit("pt_off", &[1, i], &fmt_off(o1), true);
        let base = t as *const PageTable as usize;
        let o2 = guard(|| {
            let r: &mut PageTableEntry = &mut t[i as usize];
            Some((r as *mut PageTableEntry as usize - base) as u64)
        });
        out.emit("pt_off", &[2, i], &fmt_off(o2), true);
        let o3 = guard(|| {
            let r: &mut PageTableEntry = &mut t[idx];
            Some((r as *mut PageTableEntry as usize - base) as u64)
        });
        out.emit("pt_off", &[3, i], &fmt_off(o3), true);
        // nth() on the iterators
        let o4 = guard(|| t.iter().nth(i as usize).map(|e| off_of(t, e)));
        out.emit("pt_off", &[4, i], &fmt_off(o4), true);
        let o5 = guard(|| t.iter_mut().nth(i as usize).map(|e| (e as *mut PageTableEntry as usize - base) as u64));
        out.emit("pt_off", &[5, i], &fmt_off(o5), true);
    }
    // sequential traversal of both iterators: item k, and exhaustion after the last item
    {
        let offs: Vec<u64> = t.iter().map(|e| off_of(t, e)).collect();
        for (k, o) in offs.iter().enumerate() {
            out.emit("pt_off", &[4, k as u64], &format!("ok {}", o), true);
        }
        out.emit("pt_off", &[4, offs.len() as u64], "none", true);
        let base = t as *const PageTable as usize;
        let offs: Vec<u64> = t.iter_mut().map(|e| (e as *mut PageTableEntry as usize - base) as u64).collect();
        for (k, o) in offs.iter().enumerate() {
            out.emit("pt_off", &[5, k as u64], &format!("ok {}", o), true);
        }
        out.emit("pt_off", &[5, offs.len() as u64], "none", true);
    }
    // out-of-range usize indices panic
    for i in [512u64, 513, 1023, 4096, u64::MAX] {
        let o0 = guard(|| Some(off_of(t, &t[std::hint::black_box(i as usize)])));
        out.emit("pt_off", &[0, i], &fmt_off(o0), true);
        let base = t as *const PageTable as usize;
        let o2 = guard(|| {
            let r: &mut PageTableEntry = &mut t[std::hint::black_box(i as usize)];
            Some((r as *mut PageTableEntry as usize - base) as u64)
        });
        out.emit("pt_off", &[2, i], &fmt_off(o2), true);
    }

    // reads: bytes written behind the API's back, every slot read through every path
    for i in 0..512u64 {
        let idx = PageTableIndex::new(i as u16);
        let seed = 1 + rng.below(1 << 20);
        fill_table(t, seed);
        for path in 0..6u64 {
            let (raw, api) = match path {
                0 => (raw_of(&t[i as usize]), api_word(&t[i as usize])),
                1 => (raw_of(&t[idx]), api_word(&t[idx])),
                2 => {
                    let r: &mut PageTableEntry = &mut t[i as usize];
                    (raw_of(r), api_word(r))
                }
                3 => {
                    let r: &mut PageTableEntry = &mut t[idx];
                    (raw_of(r), api_word(r))
                }
                4 => {
                    let mut got = (0, 0);
                    for (k, e) in t.iter().enumerate() {
                        if k as u64 == i {
                            got = (raw_of(e), api_word(e));
                        }
                    }
                    got
                }
                _ => {
                    let mut got = (0, 0);
                    for (k, e) in t.iter_mut().enumerate() {
                        if k as u64 == i {
                            got = (raw_of(e), api_word(e));
                        }
                    }
                    got
                }
            };
            out.emit("pt_read", &[path, seed, i], &format!("{} {}", raw, api), true);
        }
    }

    // writes: a distinct value stored through every mutable path into every slot; the whole 4096
    // bytes are compared with the image before the call
    let rounds = tier.n(1, 8);
    for _ in 0..rounds {
        for i in 0..512u64 {
            let idx = PageTableIndex::new(i as u16);
            for path in [2u64, 3, 5] {
                let seed = 1 + rng.below(1 << 20);
                fill_table(t, seed);
                let before = table_bytes(t);
                let old = u64::from_le_bytes(before[8 * i as usize..8 * i as usize + 8].try_into().unwrap());
                let v = match rng.below(4) {
                    0 => old ^ (0xffu64 << (8 * rng.below(8))),
                    1 => old ^ (1u64 << rng.below(64)),
                    2 => !old,
                    _ => {
                        let w = rng.next();
                        if w == old {
                            !w
                        } else {
                            w
                        }
                    }
                };
                let r = guard(|| match path {
                    2 => store(&mut t[i as usize], v),
                    3 => store(&mut t[idx], v),
                    _ => {
                        for (k, e) in t.iter_mut().enumerate() {
                            if k as u64 == i {
                                store(e, v);
                            }
                        }
                    }
                });
                let res = if r.is_none() {
                    "panic".to_string()
                } else {
                    let after = table_bytes(t);
                    let mut d: Vec<String> = Vec::new();
                    let mut n = 0;
                    for o in 0..4096 {
                        if before[o] != after[o] {
                            n += 1;
                            d.push(format!("{} {}", o, after[o]));
                        }
                    }
                    format!("{} {}", n, d.join(" ")).trim_end().to_string()
                };
                out.emit("pt_write", &[path, seed, i, v], &res, true);
            }
        }
    }
}

pub fn run(out: &mut Out, rng: &mut Rng, tier: Tier) {
    tables(out, rng, tier);
    entry_sequences(out, rng, tier);
}
