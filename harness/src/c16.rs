//! C16 — system-register wrappers under the trap harness.
//!
//! Every case: randomise the whole emulated register file, set the target register to `old`, call
//! the real wrapper, and report
//!   `<op> <old> <args>* => <trapped instructions> ; <returned value> ; post <target after> same <0|1>`
//! where `same` says that no other emulated register changed. The Lean driver evaluates the
//! wrapper's model on the same inputs and the spec oracle on this output.
//!
//! Not trappable, exercised on the real CPU state only: `xgetbv` (prior XCR0 is the host's),
//! `rd/wr{fs,gs}base`, `stmxcsr/ldmxcsr`, `pushfq/popfq` (through the RFLAGS hooks), segment
//! register reads and loads of valid selectors.

use crate::gen::Rng;
use crate::out::Out;
use crate::trap::{self, Regs};
use crate::Tier;
use core::sync::atomic::Ordering;
use x86_64::instructions::segmentation::{Segment, Segment64, CS, DS, ES, FS, GS, SS};
use x86_64::instructions::tables::load_tss;
use x86_64::instructions::tlb::Pcid;
use x86_64::registers::control::{Cr0, Cr0Flags, Cr2, Cr3, Cr3Flags, Cr4, Cr4Flags};
use x86_64::registers::debug::{DebugAddressRegister, Dr0, Dr1, Dr2, Dr3, Dr6, Dr7, Dr7Value};
use x86_64::registers::model_specific::{
    ApicBase, ApicBaseFlags, CetFlags, Efer, EferFlags, FsBase, GsBase, KernelGsBase, LStar, Msr, Pat, PatMemoryType,
    SCet, SFMask, Star, UCet,
};
use x86_64::registers::mxcsr::{self, MxCsr};
use x86_64::registers::rflags::{self, RFlags};
use x86_64::registers::segmentation::SegmentSelector;
use x86_64::registers::xcontrol::{XCr0, XCr0Flags};
use x86_64::structures::paging::{Page, PhysFrame, Size4KiB};
use x86_64::verif_hooks::{RFLAGS_LAST_WRITTEN, RFLAGS_OVERLAY_MASK, RFLAGS_OVERLAY_VALUE, RFLAGS_WRITE_COUNT, RFLAGS_WRITE_MASK};
use x86_64::{PhysAddr, VirtAddr};

#[derive(Clone, Copy)]
enum Target {
    Cr(usize),
    Dr(usize),
    Msr(u32),
    Xcr,
    Sreg(usize),
    Tr,
    /// GS.base and KernelGSbase together (swapgs); post = GS.base
    GsPair,
    None,
}

fn randomise(rng: &mut Rng) {
    let r = trap::regs();
    let keep_if = r.if_flag;
    *r = Regs::ZERO;
    for k in 0..16 {
        r.cr[k] = rng.next();
        r.dr[k] = rng.next();
    }
    for k in 0..4 {
        r.xcr[k] = rng.next();
    }
    r.msr_seed = rng.next();
    for k in 0..8 {
        r.sreg[k] = rng.next() as u16;
    }
    r.tr = rng.next() as u16;
    r.if_flag = keep_if;
}

fn set_target(t: Target, old: u64) {
    let r = trap::regs();
    match t {
        Target::Cr(n) => r.cr[n] = old,
        Target::Dr(n) => r.dr[n] = old,
        Target::Msr(i) => {
            r.set_msr(i, old);
        }
        Target::Xcr => r.xcr[0] = old,
        Target::Sreg(n) => r.sreg[n] = old as u16,
        Target::Tr => r.tr = old as u16,
        Target::GsPair | Target::None => {}
    }
}

fn get_target(r: &Regs, t: Target) -> u64 {
    match t {
        Target::Cr(n) => r.cr[n],
        Target::Dr(n) => r.dr[n],
        Target::Msr(i) => r.msr(i),
        Target::Xcr => r.xcr[0],
        Target::Sreg(n) => r.sreg[n] as u64,
        Target::Tr => r.tr as u64,
        Target::GsPair => r.msr(0xC000_0101),
        Target::None => 0,
    }
}

/// Did anything except the target change?
fn same_except(before: &Regs, after: &Regs, t: Target) -> bool {
    let mut b = *before;
    let mut a = *after;
    match t {
        Target::Cr(n) => {
            b.cr[n] = 0;
            a.cr[n] = 0;
        }
        Target::Dr(n) => {
            b.dr[n] = 0;
            a.dr[n] = 0;
        }
        Target::Xcr => {
            b.xcr[0] = 0;
            a.xcr[0] = 0;
        }
        Target::Sreg(n) => {
            b.sreg[n] = 0;
            a.sreg[n] = 0;
        }
        Target::Tr => {
            b.tr = 0;
            a.tr = 0;
        }
        Target::Msr(_) | Target::GsPair | Target::None => {}
    }
    // MSRs: compare as functions on the union of both key sets
    let mut msr_same = a.msr_seed == b.msr_seed;
    for i in 0..b.msr_len {
        let k = b.msr_keys[i];
        let skip = match t {
            Target::Msr(x) => x == k,
            Target::GsPair => k == 0xC000_0101 || k == 0xC000_0102,
            _ => false,
        };
        if !skip && a.msr(k) != b.msr(k) {
            msr_same = false;
        }
    }
    for i in 0..a.msr_len {
        let k = a.msr_keys[i];
        let skip = match t {
            Target::Msr(x) => x == k,
            Target::GsPair => k == 0xC000_0101 || k == 0xC000_0102,
            _ => false,
        };
        if !skip && a.msr(k) != b.msr(k) {
            msr_same = false;
        }
    }
    a.msr_keys = b.msr_keys;
    a.msr_vals = b.msr_vals;
    a.msr_len = b.msr_len;
    a.tlb_events = b.tlb_events;
    msr_same && a == b
}

/// One trapped case.
fn case<T>(out: &mut Out, rng: &mut Rng, op: &str, t: Target, old: u64, args: &[u64], f: impl FnOnce() -> T, fmt: impl Fn(&T) -> String) {
    randomise(rng);
    set_target(t, old);
    let before = *trap::regs();
    let r = trap::run(f);
    let after = *trap::regs();
    let mut s = String::new();
    for e in &r.events {
        s.push_str(&e.tokens());
        s.push(' ');
    }
    s.push_str("; ");
    match &r.value {
        Some(v) => s.push_str(&fmt(v)),
        None => s.push_str("panic"),
    }
    s.push_str(&format!(" ; post {} same {}", get_target(&after, t), same_except(&before, &after, t) as u8));
    let mut a = vec![old];
    a.extend_from_slice(args);
    out.emit(op, &a, &s, !r.events.is_empty());
}

fn unit(_: &()) -> String {
    "unit".to_string()
}
fn num(v: &u64) -> String {
    format!("{}", v)
}

/// A flags argument for a typed write: mostly subsets of `all`, sometimes arbitrary retained bits.
fn flags_arg(rng: &mut Rng, all: u64) -> u64 {
    match rng.below(8) {
        0 => 0,
        1 => all,
        2 => 1u64 << rng.below(64),
        3 => rng.next(), // from_bits_retain keeps unknown bits
        _ => rng.next() & all,
    }
}

fn reg_word(rng: &mut Rng) -> u64 {
    match rng.below(6) {
        0 => rng.next(),
        1 => u64::MAX,
        2 => 0,
        3 => 1u64 << rng.below(64),
        4 => !(1u64 << rng.below(64)),
        _ => rng.word(),
    }
}

fn frame_arg(rng: &mut Rng) -> u64 {
    match rng.below(5) {
        0 => 0,
        1 => 0x000f_ffff_ffff_f000,
        2 => (1u64 << (12 + rng.below(40))) & 0x000f_ffff_ffff_f000,
        _ => rng.phys() & 0x000f_ffff_ffff_f000,
    }
}

fn frame(a: u64) -> PhysFrame {
    PhysFrame::containing_address(PhysAddr::new(a))
}

macro_rules! flag_reg {
    ($out:ident, $rng:ident, $name:literal, $Reg:ident, $Flags:ident, $target:expr) => {{
        let all = $Flags::all().bits();
        let old = reg_word($rng);
        case($out, $rng, concat!($name, "_read_raw"), $target, old, &[], || $Reg::read_raw(), num);
        let old = reg_word($rng);
        case($out, $rng, concat!($name, "_read"), $target, old, &[], || $Reg::read().bits(), num);
        let (old, fl) = (reg_word($rng), flags_arg($rng, all));
        case($out, $rng, concat!($name, "_write"), $target, old, &[fl], || unsafe { $Reg::write($Flags::from_bits_retain(fl)) }, unit);
        let (old, v) = (reg_word($rng), reg_word($rng));
        case($out, $rng, concat!($name, "_write_raw"), $target, old, &[v], || unsafe { $Reg::write_raw(v) }, unit);
        let (old, x) = (reg_word($rng), flags_arg($rng, all));
        case($out, $rng, concat!($name, "_update"), $target, old, &[x], || unsafe { $Reg::update(|f| f.toggle($Flags::from_bits_retain(x))) }, unit);
        // round trip: what a typed write accepts is what the next typed read returns
        let (old, fl) = (reg_word($rng), rng_subset($rng, all));
        case(
            $out,
            $rng,
            concat!($name, "_write_read"),
            $target,
            old,
            &[fl],
            || unsafe {
                $Reg::write($Flags::from_bits_truncate(fl));
                $Reg::read().bits()
            },
            num,
        );
    }};
}

fn rng_subset(rng: &mut Rng, all: u64) -> u64 {
    match rng.below(4) {
        0 => all,
        1 => 0,
        _ => rng.next() & all,
    }
}

fn addr_msr(out: &mut Out, rng: &mut Rng, name: &str, idx: u32, read: fn() -> VirtAddr, write: fn(VirtAddr)) {
    let t = Target::Msr(idx);
    // prior content: canonical or not (a non-canonical content makes the typed reader panic)
    let old = if rng.chance(3, 4) { rng.canon() } else { reg_word(rng) };
    case(out, rng, &format!("{}_read", name), t, old, &[], || read().as_u64(), num);
    let (old, a) = (reg_word(rng), rng.canon());
    case(out, rng, &format!("{}_write", name), t, old, &[a], || write(VirtAddr::new(a)), unit);
    let (old, a) = (reg_word(rng), rng.canon());
    case(
        out,
        rng,
        &format!("{}_write_read", name),
        t,
        old,
        &[a],
        || {
            write(VirtAddr::new(a));
            read().as_u64()
        },
        num,
    );
}

fn sel_arg(rng: &mut Rng) -> u16 {
    match rng.below(6) {
        0 => rng.next() as u16,
        1 => (rng.below(16) as u16) << 3 | rng.below(4) as u16,
        2 => 0xfff0u16.wrapping_add(rng.below(16) as u16),
        3 => rng.below(24) as u16,
        _ => ((rng.below(8192) as u16) << 3) | rng.below(4) as u16,
    }
}

fn pat_table(v: u64) -> Option<[PatMemoryType; 8]> {
    let b = v.to_le_bytes();
    let mut t = [PatMemoryType::WriteBack; 8];
    for i in 0..8 {
        t[i] = PatMemoryType::from_bits(b[i])?;
    }
    Some(t)
}

fn pat_word(t: &[PatMemoryType; 8]) -> u64 {
    let mut v = 0u64;
    for i in 0..8 {
        v |= (t[i].bits() as u64) << (8 * i);
    }
    v
}

fn valid_pat(rng: &mut Rng) -> u64 {
    let mut v = 0u64;
    for i in 0..8 {
        v |= rng.pick(&[0u64, 1, 4, 5, 6, 7]) << (8 * i);
    }
    v
}

fn cet_fmt(v: &(CetFlags, Page)) -> String {
    format!("{} {}", v.0.bits(), v.1.start_address().as_u64())
}

fn star_fmt(v: &(SegmentSelector, SegmentSelector, SegmentSelector, SegmentSelector)) -> String {
    format!("{} {} {} {}", v.0 .0, v.1 .0, v.2 .0, v.3 .0)
}

/// Constants of the compiled crate, compared with the model's GENERATED-CANDIDATE values.
fn consts(out: &mut Out) {
    let items: Vec<(u64, u64)> = vec![
        (0, RFlags::all().bits()),
        (1, RFlags::INTERRUPT_FLAG.bits()),
        (2, Cr0Flags::all().bits()),
        (3, Cr3Flags::all().bits()),
        (4, Cr4Flags::all().bits()),
        (5, XCr0Flags::all().bits()),
        (6, x86_64::registers::debug::Dr6Flags::all().bits()),
        (7, x86_64::registers::debug::Dr7Flags::all().bits()),
        (8, Dr7Value::from_bits_truncate(u64::MAX).bits()),
        (9, EferFlags::all().bits()),
        (10, CetFlags::all().bits()),
        (11, ApicBaseFlags::all().bits()),
        (12, MxCsr::all().bits() as u64),
    ];
    for (k, v) in items {
        out.emit("c16_const", &[k], &format!("{}", v), true);
    }
}

pub fn run(out: &mut Out, rng: &mut Rng, tier: Tier) {
    if let Err(e) = trap::selftest() {
        eprintln!("trap selftest FAILED: {}", e);
        std::process::exit(2);
    }
    consts(out);
    let n = tier.n(1_500, 100_000);
    for _ in 0..n {
        // ---- control registers
        flag_reg!(out, rng, "cr0", Cr0, Cr0Flags, Target::Cr(0));
        flag_reg!(out, rng, "cr4", Cr4, Cr4Flags, Target::Cr(4));
        flag_reg!(out, rng, "efer", Efer, EferFlags, Target::Msr(0xC000_0080));

        let old = if rng.chance(1, 2) { rng.canon() } else { reg_word(rng) };
        case(out, rng, "cr2_read_raw", Target::Cr(2), old, &[], || Cr2::read_raw(), num);
        case(
            out,
            rng,
            "cr2_read",
            Target::Cr(2),
            old,
            &[],
            || Cr2::read().map(|a| a.as_u64()).ok(),
            |v| match v {
                Some(a) => format!("ok {}", a),
                None => "err".to_string(),
            },
        );

        // CR3: bits 52..62 are reserved-zero in a real CR3; arbitrary words are still read correctly
        let old = match rng.below(3) {
            0 => reg_word(rng),
            _ => frame_arg(rng) | rng.below(4096),
        };
        case(out, rng, "cr3_read_raw", Target::Cr(3), old, &[], || Cr3::read_raw(), |v| format!("{} {}", v.0.start_address().as_u64(), v.1));
        case(out, rng, "cr3_read", Target::Cr(3), old, &[], || Cr3::read(), |v| format!("{} {}", v.0.start_address().as_u64(), v.1.bits()));
        case(out, rng, "cr3_read_pcid", Target::Cr(3), old, &[], || Cr3::read_pcid(), |v| format!("{} {}", v.0.start_address().as_u64(), v.1.value()));
        let (old, fr, fl) = (reg_word(rng), frame_arg(rng), flags_arg(rng, Cr3Flags::all().bits()));
        case(out, rng, "cr3_write", Target::Cr(3), old, &[fr, fl], || unsafe { Cr3::write(frame(fr), Cr3Flags::from_bits_retain(fl)) }, unit);
        let (old, fr, pc) = (reg_word(rng), frame_arg(rng), rng.below(4096));
        let pc = if rng.chance(1, 8) { rng.pick(&[0u64, 1, 4095, 2048]) } else { pc };
        case(out, rng, "cr3_write_pcid", Target::Cr(3), old, &[fr, pc], || unsafe { Cr3::write_pcid(frame(fr), Pcid::new(pc as u16).unwrap()) }, unit);
        case(out, rng, "cr3_write_pcid_no_flush", Target::Cr(3), old, &[fr, pc], || unsafe { Cr3::write_pcid_no_flush(frame(fr), Pcid::new(pc as u16).unwrap()) }, unit);
        let v16 = rng.next() & 0xffff;
        case(out, rng, "cr3_write_raw", Target::Cr(3), old, &[fr, v16], || unsafe { Cr3::write_raw(frame(fr), v16 as u16) }, unit);
        let x = flags_arg(rng, Cr3Flags::all().bits());
        let old3 = frame_arg(rng) | rng.below(4096);
        case(
            out,
            rng,
            "cr3_update",
            Target::Cr(3),
            old3,
            &[fr, x],
            || unsafe {
                Cr3::update(|f, fl| {
                    *f = frame(fr);
                    fl.toggle(Cr3Flags::from_bits_retain(x));
                })
            },
            unit,
        );
        case(
            out,
            rng,
            "cr3_update_pcid",
            Target::Cr(3),
            old3,
            &[fr, pc],
            || unsafe {
                Cr3::update_pcid(|f, p| {
                    *f = frame(fr);
                    *p = Pcid::new(pc as u16).unwrap();
                })
            },
            unit,
        );
        case(
            out,
            rng,
            "cr3_update_pcid_no_flush",
            Target::Cr(3),
            old3,
            &[fr, pc],
            || unsafe {
                Cr3::update_pcid_no_flush(|f, p| {
                    *f = frame(fr);
                    *p = Pcid::new(pc as u16).unwrap();
                })
            },
            unit,
        );
        // round trips
        let fl = rng_subset(rng, Cr3Flags::all().bits());
        case(
            out,
            rng,
            "cr3_write_read",
            Target::Cr(3),
            old,
            &[fr, fl],
            || unsafe {
                Cr3::write(frame(fr), Cr3Flags::from_bits_truncate(fl));
                Cr3::read()
            },
            |v| format!("{} {}", v.0.start_address().as_u64(), v.1.bits()),
        );
        let nf = rng.below(2);
        case(
            out,
            rng,
            "cr3_write_pcid_read_pcid",
            Target::Cr(3),
            old,
            &[fr, pc, nf],
            || unsafe {
                if nf == 1 {
                    Cr3::write_pcid_no_flush(frame(fr), Pcid::new(pc as u16).unwrap());
                } else {
                    Cr3::write_pcid(frame(fr), Pcid::new(pc as u16).unwrap());
                }
                Cr3::read_pcid()
            },
            |v| format!("{} {}", v.0.start_address().as_u64(), v.1.value()),
        );

        // ---- raw MSR access
        let idx = match rng.below(4) {
            0 => rng.next() as u32,
            1 => rng.pick(&[0u32, 0x1b, 0x277, 0x6a0, 0x6a2, 0xc000_0080, 0xc000_0081, 0xc000_0082, 0xc000_0084, 0xc000_0100, 0xc000_0101, 0xc000_0102, u32::MAX]),
            _ => 0xc000_0000 | rng.below(0x200) as u32,
        };
        let (old, v) = (reg_word(rng), reg_word(rng));
        case(out, rng, "msr_read", Target::Msr(idx), old, &[idx as u64], || unsafe { Msr::new(idx).read() }, num);
        case(out, rng, "msr_write", Target::Msr(idx), old, &[idx as u64, v], || unsafe { Msr::new(idx).write(v) }, unit);

        // ---- address MSRs
        addr_msr(out, rng, "fsbase", 0xC000_0100, FsBase::read, FsBase::write);
        addr_msr(out, rng, "gsbase", 0xC000_0101, GsBase::read, GsBase::write);
        addr_msr(out, rng, "kgsbase", 0xC000_0102, KernelGsBase::read, KernelGsBase::write);
        addr_msr(out, rng, "lstar", 0xC000_0082, LStar::read, LStar::write);

        // ---- STAR
        let t = Target::Msr(0xC000_0081);
        let old = match rng.below(4) {
            0 => reg_word(rng),
            1 => ((0xfff0u64 + rng.below(16)) << 48) | ((0xfff0u64 + rng.below(16)) << 32) | (rng.next() & 0xffff_ffff),
            _ => rng.next(),
        };
        case(out, rng, "star_read_raw", t, old, &[], || Star::read_raw(), |v| format!("{} {}", v.0, v.1));
        case(out, rng, "star_read", t, old, &[], || Star::read(), star_fmt);
        let (a, b) = (sel_arg(rng) as u64, sel_arg(rng) as u64);
        case(out, rng, "star_write_raw", t, old, &[a, b], || unsafe { Star::write_raw(a as u16, b as u16) }, unit);
        // selector quadruples: mostly near-valid so that every check is reached
        let ss_ret = sel_arg(rng);
        let cs_ret = match rng.below(4) {
            0 => sel_arg(rng),
            _ => ss_ret.wrapping_add(8),
        };
        let cs_call = sel_arg(rng);
        let ss_call = match rng.below(4) {
            0 => sel_arg(rng),
            _ => cs_call.wrapping_add(8),
        };
        let (ss_ret, ss_call) = (if rng.chance(3, 4) { ss_ret | 3 } else { ss_ret }, if rng.chance(3, 4) { ss_call & !3 } else { ss_call });
        let (cs_ret, cs_call) = (if rng.chance(3, 4) { (ss_ret).wrapping_add(8) } else { cs_ret }, if rng.chance(3, 4) { ss_call.wrapping_sub(8) } else { cs_call });
        let q = [cs_ret as u64, ss_ret as u64, cs_call as u64, ss_call as u64];
        let star_res = |v: &Result<(), String>| match v {
            Ok(()) => "ok".to_string(),
            Err(e) => format!("err {}", e),
        };
        case(
            out,
            rng,
            "star_write",
            t,
            old,
            &q,
            || Star::write(SegmentSelector(cs_ret), SegmentSelector(ss_ret), SegmentSelector(cs_call), SegmentSelector(ss_call)).map_err(|e| format!("{:?}", e)),
            star_res,
        );
        case(
            out,
            rng,
            "star_write_read",
            t,
            old,
            &q,
            || {
                let w = Star::write(SegmentSelector(cs_ret), SegmentSelector(ss_ret), SegmentSelector(cs_call), SegmentSelector(ss_call)).map_err(|e| format!("{:?}", e));
                match w {
                    Ok(()) => Ok(Star::read()),
                    Err(e) => Err(e),
                }
            },
            |v| match v {
                Ok(r) => format!("ok {}", star_fmt(r)),
                Err(e) => format!("err {}", e),
            },
        );

        // ---- SFMASK
        let t = Target::Msr(0xC000_0084);
        let all = RFlags::all().bits();
        let old = if rng.chance(3, 4) { rng.next() & all } else { reg_word(rng) };
        case(out, rng, "sfmask_read", t, old, &[], || SFMask::read().bits(), num);
        let (oldw, v) = (reg_word(rng), flags_arg(rng, all));
        case(out, rng, "sfmask_write", t, oldw, &[v], || SFMask::write(RFlags::from_bits_retain(v)), unit);
        let x = flags_arg(rng, all);
        case(out, rng, "sfmask_update", t, old, &[x], || SFMask::update(|f| f.toggle(RFlags::from_bits_retain(x))), unit);
        let v = rng_subset(rng, all);
        case(
            out,
            rng,
            "sfmask_write_read",
            t,
            oldw,
            &[v],
            || {
                SFMask::write(RFlags::from_bits_truncate(v));
                SFMask::read().bits()
            },
            num,
        );

        // ---- CET
        for (name, idx) in [("ucet", 0x6A0u32), ("scet", 0x6A2u32)] {
            let t = Target::Msr(idx);
            let user = idx == 0x6A0;
            let old = if rng.chance(3, 4) { (rng.canon() & !0xfff) | (rng.next() & 0xfff) } else { reg_word(rng) };
            case(out, rng, &format!("{}_read", name), t, old, &[], || if user { UCet::read() } else { SCet::read() }, cet_fmt);
            let (oldw, fl, pg) = (reg_word(rng), flags_arg(rng, CetFlags::all().bits()), rng.canon() & !0xfff);
            let page = Page::<Size4KiB>::containing_address(VirtAddr::new(pg));
            case(
                out,
                rng,
                &format!("{}_write", name),
                t,
                oldw,
                &[fl, pg],
                || {
                    if user {
                        UCet::write(CetFlags::from_bits_retain(fl), page)
                    } else {
                        SCet::write(CetFlags::from_bits_retain(fl), page)
                    }
                },
                unit,
            );
            let x = flags_arg(rng, CetFlags::all().bits());
            case(
                out,
                rng,
                &format!("{}_update", name),
                t,
                old,
                &[x, pg],
                || {
                    let f = |f: &mut CetFlags, p: &mut Page| {
                        f.toggle(CetFlags::from_bits_retain(x));
                        *p = page;
                    };
                    if user {
                        UCet::update(f)
                    } else {
                        SCet::update(f)
                    }
                },
                unit,
            );
            let fl = rng_subset(rng, CetFlags::all().bits());
            case(
                out,
                rng,
                &format!("{}_write_read", name),
                t,
                oldw,
                &[fl, pg],
                || {
                    if user {
                        UCet::write(CetFlags::from_bits_truncate(fl), page);
                        UCet::read()
                    } else {
                        SCet::write(CetFlags::from_bits_truncate(fl), page);
                        SCet::read()
                    }
                },
                cet_fmt,
            );
        }

        // ---- PAT
        let t = Target::Msr(0x277);
        let old = if rng.chance(3, 4) { valid_pat(rng) } else { reg_word(rng) };
        case(out, rng, "pat_read", t, old, &[], || pat_word(&Pat::read()), num);
        let (oldw, tv) = (reg_word(rng), valid_pat(rng));
        let table = pat_table(tv).unwrap();
        case(out, rng, "pat_write", t, oldw, &[tv], || unsafe { Pat::write(table) }, unit);
        case(
            out,
            rng,
            "pat_write_read",
            t,
            oldw,
            &[tv],
            || unsafe {
                Pat::write(table);
                pat_word(&Pat::read())
            },
            num,
        );

        // ---- APIC base
        let t = Target::Msr(0x1B);
        // prior content: a realistic register (base 0xfee00000-like + flags) or an arbitrary word
        let old = match rng.below(4) {
            0 => reg_word(rng),
            1 => 0xfee0_0000 | 0x900,
            2 => rng.next() & 0xfff, // no base bits set
            _ => frame_arg(rng) | (rng.next() & 0xfff),
        };
        let apic_fmt = |v: &(PhysFrame, u64)| format!("{} {}", v.0.start_address().as_u64(), v.1);
        case(out, rng, "apic_read_raw", t, old, &[], || ApicBase::read_raw(), apic_fmt);
        case(out, rng, "apic_read", t, old, &[], || ApicBase::read(), |v| format!("{} {}", v.0.start_address().as_u64(), v.1.bits()));
        let (fr, fl) = (frame_arg(rng), flags_arg(rng, ApicBaseFlags::all().bits()));
        case(out, rng, "apic_write", t, old, &[fr, fl], || unsafe { ApicBase::write(frame(fr), ApicBaseFlags::from_bits_retain(fl)) }, unit);
        let fv = reg_word(rng);
        case(out, rng, "apic_write_raw", t, old, &[fr, fv], || unsafe { ApicBase::write_raw(frame(fr), fv) }, unit);
        let fl = rng_subset(rng, ApicBaseFlags::all().bits());
        case(
            out,
            rng,
            "apic_write_read",
            t,
            old,
            &[fr, fl],
            || unsafe {
                ApicBase::write(frame(fr), ApicBaseFlags::from_bits_truncate(fl));
                ApicBase::read()
            },
            |v| format!("{} {}", v.0.start_address().as_u64(), v.1.bits()),
        );

        // ---- debug registers
        let k = rng.below(4) as usize;
        let (old, v) = (reg_word(rng), reg_word(rng));
        case(
            out,
            rng,
            "dr_read",
            Target::Dr(k),
            old,
            &[k as u64],
            || match k {
                0 => Dr0::read(),
                1 => Dr1::read(),
                2 => Dr2::read(),
                _ => Dr3::read(),
            },
            num,
        );
        case(
            out,
            rng,
            "dr_write",
            Target::Dr(k),
            old,
            &[k as u64, v],
            || match k {
                0 => Dr0::write(v),
                1 => Dr1::write(v),
                2 => Dr2::write(v),
                _ => Dr3::write(v),
            },
            unit,
        );
        case(
            out,
            rng,
            "dr_write_read",
            Target::Dr(k),
            old,
            &[k as u64, v],
            || match k {
                0 => {
                    Dr0::write(v);
                    Dr0::read()
                }
                1 => {
                    Dr1::write(v);
                    Dr1::read()
                }
                2 => {
                    Dr2::write(v);
                    Dr2::read()
                }
                _ => {
                    Dr3::write(v);
                    Dr3::read()
                }
            },
            num,
        );
        let old = reg_word(rng);
        case(out, rng, "dr6_read_raw", Target::Dr(6), old, &[], || Dr6::read_raw(), num);
        case(out, rng, "dr6_read", Target::Dr(6), old, &[], || Dr6::read().bits(), num);
        let valid7 = Dr7Value::from_bits_truncate(u64::MAX).bits();
        let old = reg_word(rng);
        case(out, rng, "dr7_read_raw", Target::Dr(7), old, &[], || Dr7::read_raw(), num);
        case(out, rng, "dr7_read", Target::Dr(7), old, &[], || Dr7::read().bits(), num);
        let v = rng_subset(rng, valid7);
        case(out, rng, "dr7_write", Target::Dr(7), old, &[v], || Dr7::write(Dr7Value::from_bits_truncate(v)), unit);
        let w = reg_word(rng);
        case(out, rng, "dr7_write_raw", Target::Dr(7), old, &[w], || Dr7::write_raw(w), unit);
        let x = rng_subset(rng, valid7);
        case(out, rng, "dr7_update", Target::Dr(7), old, &[x], || Dr7::update(|d| *d = Dr7Value::from_bits_truncate(d.bits() ^ x)), unit);
        case(
            out,
            rng,
            "dr7_write_read",
            Target::Dr(7),
            old,
            &[v],
            || {
                Dr7::write(Dr7Value::from_bits_truncate(v));
                Dr7::read().bits()
            },
            num,
        );

        // ---- XCR0: xgetbv is not privileged, the prior value is the host's
        let host = XCr0::read_raw();
        let all = XCr0Flags::all().bits();
        let fl = match rng.below(6) {
            0 => flags_arg(rng, all),
            1 => 1,
            2 => 3,
            3 => 7,
            4 => 0xe7,
            _ => (rng.next() & all) | 1,
        };
        case(out, rng, "xcr0_write", Target::Xcr, host, &[fl], || unsafe { XCr0::write(XCr0Flags::from_bits_retain(fl)) }, unit);
        let v = reg_word(rng);
        case(out, rng, "xcr0_write_raw", Target::Xcr, host, &[v], || unsafe { XCr0::write_raw(v) }, unit);
        // toggles that keep the validity groups intact (MPK, LWP, the MPX pair, the AVX-512 triple) or arbitrary
        let x = if rng.chance(2, 3) {
            let mut x = 0u64;
            for g in [0x200u64, 1 << 62, 0x18, 0xe0] {
                if rng.chance(1, 3) {
                    x |= g;
                }
            }
            x
        } else {
            rng.next() & all & !1
        };
        case(out, rng, "xcr0_update", Target::Xcr, host, &[x], || unsafe { XCr0::update(|f| f.toggle(XCr0Flags::from_bits_retain(x))) }, unit);

        // ---- segment loads with selectors that fault (TI = 1: no LDT; or beyond the GDT limit)
        let s = rng.pick(&[0usize, 2, 3, 4, 5]);
        let sel = match rng.below(3) {
            0 => (rng.next() as u16) | 4,
            1 => 0x80u16.wrapping_add((rng.next() as u16) & 0xff78) | 0x80,
            _ => ((rng.below(8192) as u16) << 3) | 4 | rng.below(4) as u16,
        };
        let old = rng.next() & 0xffff;
        case(
            out,
            rng,
            "seg_set",
            Target::Sreg(s),
            old,
            &[s as u64, sel as u64],
            || unsafe {
                match s {
                    0 => ES::set_reg(SegmentSelector(sel)),
                    2 => SS::set_reg(SegmentSelector(sel)),
                    3 => DS::set_reg(SegmentSelector(sel)),
                    4 => FS::set_reg(SegmentSelector(sel)),
                    _ => GS::set_reg(SegmentSelector(sel)),
                }
            },
            unit,
        );
        case(out, rng, "cs_set", Target::Sreg(1), old, &[sel as u64], || unsafe { CS::set_reg(SegmentSelector(sel)) }, unit);
        let tsel = rng.next() as u16;
        case(out, rng, "load_tss", Target::Tr, old, &[tsel as u64], || unsafe { load_tss(SegmentSelector(tsel)) }, unit);
        let (g, kg) = (reg_word(rng), reg_word(rng));
        randomise(rng);
        {
            // swapgs: both bases are MSRs of the emulated file
            let r = trap::regs();
            r.set_msr(0xC000_0101, g);
            r.set_msr(0xC000_0102, kg);
            let before = *r;
            let run = trap::run(|| unsafe { GS::swap() });
            let after = *trap::regs();
            let mut s = String::new();
            for e in &run.events {
                s.push_str(&e.tokens());
                s.push(' ');
            }
            s.push_str(&format!("; unit ; post {} kgs {} same {}", after.msr(0xC000_0101), after.msr(0xC000_0102), same_except(&before, &after, Target::GsPair) as u8));
            out.emit("gs_swap", &[g, kg], &s, true);
        }
    }

    // ---- real CPU state only (not trappable)
    real_cpu(out, rng, tier);
    out.notes.insert("traps".into(), format!("{}", trap::total_traps()));
    out.notes.insert("unexpected_instructions".into(), format!("{}", trap::unexpected_count() - 1));
    out.notes.insert(
        "not_trappable".into(),
        "xgetbv (prior XCR0 = host value), rd/wr{fs,gs}base, stmxcsr/ldmxcsr, pushfq/popfq (overlay/recorder hooks), segment register reads, loads of valid selectors: executed on the real CPU".into(),
    );
}

fn real_cpu(out: &mut Out, rng: &mut Rng, tier: Tier) {
    let n = tier.n(2_000, 100_000);
    // XCR0 reads
    let host = XCr0::read_raw();
    out.emit("xcr0_read_raw", &[host], &format!("; {} ; post {} same 1", XCr0::read_raw(), host), true);
    out.emit("xcr0_read", &[host], &format!("; {} ; post {} same 1", XCr0::read().bits(), host), true);
    // MXCSR: keep all exceptions masked, vary the rest
    let saved = mxcsr::read();
    for _ in 0..n.min(4096) {
        let v = (rng.next() as u32 & 0xffff & !0x1f80) | 0x1f80;
        mxcsr::write(MxCsr::from_bits_truncate(v));
        let back = mxcsr::read().bits();
        out.emit("mxcsr_write_read", &[v as u64], &format!("; {} ; post {} same 1", back, back), true);
        let x = (rng.next() as u32) & 0xe07f;
        mxcsr::update(|m| m.toggle(MxCsr::from_bits_truncate(x)));
        let back2 = mxcsr::read().bits();
        out.emit("mxcsr_update", &[back as u64, x as u64], &format!("; unit ; post {} same 1", back2), true);
    }
    mxcsr::write(saved);
    // RFLAGS through the hooks: the overlay supplies the prior content, the recorder sees the
    // value handed to popfq; only the arithmetic flags are really loaded.
    RFLAGS_WRITE_MASK.store(0x8d5, Ordering::Relaxed);
    for _ in 0..n {
        let old = reg_word(rng);
        RFLAGS_OVERLAY_MASK.store(u64::MAX, Ordering::Relaxed);
        RFLAGS_OVERLAY_VALUE.store(old, Ordering::Relaxed);
        out.emit("rflags_read_raw", &[old], &format!("; {} ; post {} same 1", rflags::read_raw(), old), true);
        out.emit("rflags_read", &[old], &format!("; {} ; post {} same 1", rflags::read().bits(), old), true);
        let fl = flags_arg(rng, RFlags::all().bits());
        let c0 = RFLAGS_WRITE_COUNT.load(Ordering::Relaxed);
        unsafe { rflags::write(RFlags::from_bits_retain(fl)) };
        let c1 = RFLAGS_WRITE_COUNT.load(Ordering::Relaxed);
        out.emit("rflags_write", &[old, fl], &format!("popfq {} ; unit ; post {} same {}", RFLAGS_LAST_WRITTEN.load(Ordering::Relaxed), RFLAGS_LAST_WRITTEN.load(Ordering::Relaxed), (c1 - c0 == 1) as u8), true);
        let v = reg_word(rng);
        let c0 = RFLAGS_WRITE_COUNT.load(Ordering::Relaxed);
        unsafe { rflags::write_raw(v) };
        let c1 = RFLAGS_WRITE_COUNT.load(Ordering::Relaxed);
        out.emit("rflags_write_raw", &[old, v], &format!("popfq {} ; unit ; post {} same {}", RFLAGS_LAST_WRITTEN.load(Ordering::Relaxed), RFLAGS_LAST_WRITTEN.load(Ordering::Relaxed), (c1 - c0 == 1) as u8), true);
        let x = flags_arg(rng, RFlags::all().bits());
        let c0 = RFLAGS_WRITE_COUNT.load(Ordering::Relaxed);
        unsafe { rflags::update(|f| f.toggle(RFlags::from_bits_retain(x))) };
        let c1 = RFLAGS_WRITE_COUNT.load(Ordering::Relaxed);
        out.emit("rflags_update", &[old, x], &format!("popfq {} ; unit ; post {} same {}", RFLAGS_LAST_WRITTEN.load(Ordering::Relaxed), RFLAGS_LAST_WRITTEN.load(Ordering::Relaxed), (c1 - c0 == 1) as u8), true);
    }
    RFLAGS_OVERLAY_MASK.store(0x200, Ordering::Relaxed);
    RFLAGS_OVERLAY_VALUE.store(0x200, Ordering::Relaxed);
    RFLAGS_WRITE_MASK.store(0x8d5, Ordering::Relaxed);
    // segment registers: reads, and loads of selectors that are valid in a user process
    let sels = [CS::get_reg().0, SS::get_reg().0, DS::get_reg().0, ES::get_reg().0, FS::get_reg().0, GS::get_reg().0];
    out.notes.insert("host_selectors".into(), format!("{:?}", sels));
    let user_ds = SS::get_reg().0;
    for sel in [0u16, user_ds, 1, 2, 3] {
        unsafe { DS::set_reg(SegmentSelector(sel)) };
        out.emit("seg_set_real", &[3, sel as u64], &format!("; {} ; post {} same 1", DS::get_reg().0, DS::get_reg().0), true);
        unsafe { ES::set_reg(SegmentSelector(sel)) };
        out.emit("seg_set_real", &[0, sel as u64], &format!("; {} ; post {} same 1", ES::get_reg().0, ES::get_reg().0), true);
    }
    unsafe {
        DS::set_reg(SegmentSelector(sels[2]));
        ES::set_reg(SegmentSelector(sels[3]));
        SS::set_reg(SegmentSelector(user_ds));
    }
    out.emit("seg_set_real", &[2, user_ds as u64], &format!("; {} ; post {} same 1", SS::get_reg().0, SS::get_reg().0), true);
    let cs = CS::get_reg();
    unsafe { CS::set_reg(cs) };
    out.emit("seg_set_real", &[1, cs.0 as u64], &format!("; {} ; post {} same 1", CS::get_reg().0, CS::get_reg().0), true);
    // FS/GS base on the real CPU: GS.base is unused by user code on Linux and may hold any
    // canonical value; FS.base (thread pointer) is only rewritten with its own value.
    let fs = FS::read_base();
    unsafe { FS::write_base(fs) };
    out.emit("base_write_read", &[4, fs.as_u64()], &format!("; {} ; post {} same 1", FS::read_base().as_u64(), FS::read_base().as_u64()), true);
    let gs0 = GS::read_base();
    for _ in 0..n {
        let a = rng.canon();
        unsafe { GS::write_base(VirtAddr::new(a)) };
        let back = GS::read_base().as_u64();
        out.emit("base_write_read", &[5, a], &format!("; {} ; post {} same 1", back, back), true);
    }
    unsafe { GS::write_base(gs0) };
}
