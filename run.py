#!/usr/bin/env python3
"""Entry point of the verification machinery (see DESIGN.md).

  run.py setup                         build everything once (Lean library + driver, harness in both profiles)
  run.py check <id> [--tier quick|thorough]
  run.py replay <replay.json>

`check` does, for one property:
  1. translator: regenerate lean/X86Model/Generated/*.lean from /repo's current source
  2. lake build of the property's theorem module(s) and the driver (the Lean kernel re-checks
     every theorem that depends on a regenerated constant)
  3. axiom audit (`#print axioms`-equivalent over every theorem of the module) + forbidden-token grep
  4. cargo build of the correspondence harness against /repo's working tree
  5. harness | driver : implementation vs model vs spec oracle on the same cases
  6. decision (DESIGN.md section 6), evidence/<id>.json, exit code
"""
import json
import os
import re
import subprocess
import sys
import time

ROOT = os.path.dirname(os.path.abspath(__file__))
LEAN = os.path.join(ROOT, "lean")
HARNESS = os.path.join(ROOT, "harness")
WORK = os.path.join(ROOT, "work")
EVID = os.path.join(ROOT, "evidence")
REPLAYS = os.path.join(ROOT, "replays")
# The crate under verification. VERIF_REPO points the whole pipeline (translator + harness build) at another
# checkout (e.g. a scratch `git worktree` used to try the checks against deliberately broken code).
REPO = os.environ.get("VERIF_REPO", "/repo")
if REPO != "/repo":
    # a trial against another checkout never touches the evidence of the real tree
    EVID = os.path.join(WORK, "evidence_alt")
DRIVER = os.path.join(LEAN, ".lake", "build", "bin", "driver")

ALLOWED_AXIOMS = {"propext", "Classical.choice", "Quot.sound"}
FORBIDDEN = re.compile(r"\b(sorry|admit|native_decide|implemented_by)\b|^\s*axiom\s|\bunsafe\s|maxHeartbeats\s+0\b")

sys.path.insert(0, ROOT)
from checks import PROPS  # noqa: E402  (per-property configuration)


def env_offline():
    e = dict(os.environ)
    e["CARGO_NET_OFFLINE"] = "true"
    e.setdefault("CARGO_TERM_COLOR", "never")
    return e


def sh(cmd, cwd=None, timeout=None, env=None):
    p = subprocess.run(cmd, cwd=cwd, stdout=subprocess.PIPE, stderr=subprocess.STDOUT, text=True,
                       timeout=timeout, env=env or env_offline())
    return p.returncode, p.stdout


# --------------------------------------------------------------------------- translator

def run_translator():
    """Regenerate Generated/*.lean from /repo's source. Returns (ok, message)."""
    script = os.path.join(ROOT, "translator", "extract.py")
    if not os.path.exists(script):
        return True, "no translator yet"
    rc, out = sh([sys.executable, script, REPO, os.path.join(LEAN, "X86Model", "Generated")])
    return rc == 0, out


# --------------------------------------------------------------------------- Lean side

def lake_build(targets):
    rc, out = sh(["lake", "build"] + targets, cwd=LEAN, timeout=3600)
    return rc == 0, out


def strip_comments(src):
    """Remove Lean block comments (nested) and line comments."""
    out = []
    i, depth, n = 0, 0, len(src)
    while i < n:
        if src.startswith("/-", i):
            depth += 1
            i += 2
        elif depth and src.startswith("-/", i):
            depth -= 1
            i += 2
        elif depth:
            if src[i] == "\n":
                out.append("\n")
            i += 1
        elif src.startswith("--", i):
            while i < n and src[i] != "\n":
                i += 1
        else:
            out.append(src[i])
            i += 1
    return "".join(out)


def forbidden_tokens():
    hits = []
    for dirpath, _, files in os.walk(LEAN):
        if ".lake" in dirpath:
            continue
        for f in files:
            if not f.endswith(".lean"):
                continue
            path = os.path.join(dirpath, f)
            body = strip_comments(open(path).read())
            for ln, line in enumerate(body.split("\n"), 1):
                if FORBIDDEN.search(line):
                    hits.append(f"{os.path.relpath(path, LEAN)}:{ln}: {line.strip()}")
    return hits


AUDIT_TEMPLATE = """import Lean
{imports}
open Lean Elab Command in
#eval show CommandElabM Unit from do
  let env ← getEnv
  let prefixes : List Name := [{prefixes}]
  for (n, ci) in env.constants.toList do
    if prefixes.any (fun p => p.isPrefixOf n) && !n.isInternalDetail then
      match ci with
      | .thmInfo _ =>
        let axs ← Lean.collectAxioms n
        logInfo m!"THM {{n}} :: {{axs.toList}}"
      | _ => pure ()
"""


def audit(pid, cfg):
    """Collect the axioms of every theorem in the property's namespaces."""
    os.makedirs(WORK, exist_ok=True)
    path = os.path.join(WORK, f"audit_{pid}.lean")
    imports = "\n".join(f"import {m}" for m in cfg["modules"])
    prefixes = ", ".join("`" + ns for ns in cfg["namespaces"])
    open(path, "w").write(AUDIT_TEMPLATE.format(imports=imports, prefixes=prefixes))
    rc, out = sh(["lake", "env", "lean", path], cwd=LEAN, timeout=1800)
    thms = {}
    for m in re.finditer(r"THM (\S+) :: \[(.*?)\]", out, re.S):
        axs = [a.strip() for a in m.group(2).replace("\n", " ").split(",") if a.strip()]
        thms[m.group(1)] = axs
    return rc == 0, thms, out


def summarize_axioms(thms):
    """Axioms actually reported by the audit; the per-call `bv_decide` axioms are collapsed per theorem."""
    plain, bv = set(), {}
    for axs in thms.values():
        for a in axs:
            m = re.match(r"(.*)\._native\.bv_decide\.ax_\S+$", a)
            if m:
                bv.setdefault(m.group(1), set()).add(a)
            else:
                plain.add(a)
    return sorted(plain) + [f"{t}._native.bv_decide.ax_* ({len(v)} bv_decide calls)" for t, v in sorted(bv.items())]


def axiom_ok(ax, cfg):
    if ax in ALLOWED_AXIOMS:
        return True
    if cfg.get("allow_bv_decide") and "_native.bv_decide.ax" in ax:
        return True
    return False


# --------------------------------------------------------------------------- harness side

def harness_dir():
    """Directory cargo is run in. With VERIF_REPO set, an alternate manifest under work/ that builds the same
    sources (harness/src) against that checkout, with its own target directory."""
    if REPO == "/repo":
        return HARNESS
    alt = os.path.join(WORK, "harness_alt")
    os.makedirs(alt, exist_ok=True)
    man = open(os.path.join(HARNESS, "Cargo.toml")).read()
    if 'path = "/repo"' not in man:
        raise RuntimeError("harness/Cargo.toml: expected the dependency `path = \"/repo\"`")
    man = man.replace('path = "/repo"', f'path = "{REPO}"')
    man += f'\n[[bin]]\nname = "harness"\npath = "{os.path.join(HARNESS, "src", "main.rs")}"\n'
    dst = os.path.join(alt, "Cargo.toml")
    if not os.path.exists(dst) or open(dst).read() != man:
        open(dst, "w").write(man)
    lock = os.path.join(HARNESS, "Cargo.lock")
    alt_lock = os.path.join(alt, "Cargo.lock")
    if os.path.exists(lock) and (not os.path.exists(alt_lock) or open(alt_lock).read() != open(lock).read()):
        open(alt_lock, "w").write(open(lock).read())
    return alt


def cargo_build(profile):
    cmd = ["cargo", "+nightly", "build", "--offline"]
    if profile == "release":
        cmd.append("--release")
    elif profile != "debug":
        cmd += ["--profile", profile]
    rc, out = sh(cmd, cwd=harness_dir(), timeout=3600)
    return rc == 0, out


def crate_builds():
    """Does the crate under verification compile on its own (default features + verif_hooks)?"""
    env = env_offline()
    env["CARGO_TARGET_DIR"] = os.path.join(WORK, "crate_target")
    rc, _ = sh(["cargo", "+nightly", "build", "--offline", "--features", "verif_hooks"], cwd=REPO, timeout=1800, env=env)
    return rc == 0


def harness_bin(profile):
    return os.path.join(harness_dir(), "target", profile, "harness")


def run_pipeline(pid, profile, tier, seed, timeout=None):
    """harness | driver. Returns dict with driver verdict lines and harness stats."""
    os.makedirs(WORK, exist_ok=True)
    stats_path = os.path.join(WORK, f"{pid}_{profile}_stats.json")
    if os.path.exists(stats_path):
        os.remove(stats_path)
    hcmd = [harness_bin(profile), pid, "--tier", tier, "--seed", str(seed), "--stats", stats_path]
    t0 = time.time()
    hp = subprocess.Popen(hcmd, stdout=subprocess.PIPE, stderr=subprocess.PIPE, cwd=HARNESS)
    dp = subprocess.Popen([DRIVER], stdin=hp.stdout, stdout=subprocess.PIPE, stderr=subprocess.PIPE, text=True)
    hp.stdout.close()
    timed_out = False
    try:
        dout, derr = dp.communicate(timeout=timeout)
    except subprocess.TimeoutExpired:
        # time-capped search: stop the producer, let the driver finish what it has, keep the verdicts so far
        timed_out = True
        hp.kill()
        try:
            dout, derr = dp.communicate(timeout=60)
        except subprocess.TimeoutExpired:
            dp.kill()
            dout, derr = dp.communicate()
    herr = hp.stderr.read().decode(errors="replace")
    hrc = hp.wait()
    res = {"profile": profile, "F": [], "D": [], "U": [], "E": [], "H": {}, "summary": None,
           "harness_rc": hrc, "driver_rc": dp.returncode, "harness_err": herr[-2000:], "driver_err": derr[-2000:],
           "wall_s": time.time() - t0, "stats": None, "timed_out": timed_out}
    for line in dout.split("\n"):
        if not line:
            continue
        tag = line[0]
        if tag in "FDU" and line[1:2] == " ":
            if len(res[tag]) < 200:
                res[tag].append(line[2:])
            res.setdefault(tag + "_count", 0)
            res[tag + "_count"] += 1
        elif tag == "E" and line[1:2] == " ":
            # keep a spread of samples: at most 3 per op family (`const:T:N` lines form one family)
            fam = line[2:].split(" ", 1)[0].split(":", 1)[0]
            seen = res.setdefault("_E_fam", {})
            if seen.get(fam, 0) < 3 and len(res["E"]) < 90:
                seen[fam] = seen.get(fam, 0) + 1
                res["E"].append(line[2:])
        elif tag == "H" and line[1:2] == " ":
            k, v = line[2:].rsplit(" ", 1)
            res["H"][k] = int(v)
        elif tag == "S" and line[1:2] == " ":
            res["summary"] = dict(kv.split("=") for kv in line[2:].split())
    if os.path.exists(stats_path):
        try:
            res["stats"] = json.load(open(stats_path))
        except Exception as ex:  # noqa: BLE001
            res["stats_error"] = str(ex)
    return res


# --------------------------------------------------------------------------- per-property hooks

def run_framework_checks(cfg):
    """cfg["framework_checks"]: scripts (relative to the repository root of the checks) that validate the
    *specification side* against a second source. Non-zero exit = framework error, never a violation."""
    errs = []
    for script in cfg.get("framework_checks", []):
        rc, out = sh([sys.executable, os.path.join(ROOT, script)], cwd=ROOT, timeout=600)
        if rc != 0:
            errs.append(f"{script} failed (rc={rc}): " + out.strip()[-1500:])
    return errs


def run_eval_script(cfg):
    """cfg["eval_script"]: a Lean file (relative to lean/) with a `main`, run with `lake env lean --run` after
    building cfg["eval_modules"] (only spec + generated modules, so it still runs when a theorem broke).
    It evaluates the property's spec oracle directly on the source-derived data and prints
        MISMATCH <text>     a concrete failing input (becomes the replay of a VIOLATION)
        UNCOVERED <text>    an item the spec does not cover (evidence only, no alarm)
        COUNTS k=v ...      measured counts (evidence)
    Returns dict(ok, mismatches, uncovered, counts, output)."""
    res = {"ok": True, "mismatches": [], "uncovered": [], "counts": {}, "output": ""}
    script = cfg.get("eval_script")
    if not script:
        return None
    ok, out = lake_build(list(cfg.get("eval_modules", [])))
    if not ok:
        res["ok"] = False
        res["output"] = out[-2000:]
        return res
    rc, out = sh(["lake", "env", "lean", "--run", script], cwd=LEAN, timeout=1800)
    res["output"] = out[-2000:]
    if rc != 0:
        res["ok"] = False
        return res
    for line in out.split("\n"):
        if line.startswith("MISMATCH "):
            res["mismatches"].append(line[len("MISMATCH "):].strip())
        elif line.startswith("UNCOVERED "):
            res["uncovered"].append(line[len("UNCOVERED "):].strip())
        elif line.startswith("COUNTS "):
            for kv in line.split()[1:]:
                k, _, v = kv.partition("=")
                res["counts"][k] = int(v) if v.isdigit() else v
    if not res["counts"]:
        res["ok"] = False
    return res


# --------------------------------------------------------------------------- known findings

def load_known(pid):
    """KNOWN_FINDINGS.txt lines:
         finding: property=<id> key=<regex over 'profile=<p> <failing line>'> :: <what fails>
         fixed: property=<id> <commit> <what failed>
       Only `finding:` lines suppress anything."""
    path = os.path.join(ROOT, "KNOWN_FINDINGS.txt")
    out = []
    if not os.path.exists(path):
        return out
    for line in open(path):
        line = line.strip()
        m = re.match(r"finding:\s+property=(\S+)\s+key=(\S+)\s+::\s+(.*)", line)
        if m and m.group(1) == pid:
            out.append((re.compile(m.group(2)), m.group(3)))
    return out


# --------------------------------------------------------------------------- check

def write_replay(pid, kind, payload):
    os.makedirs(REPLAYS, exist_ok=True)
    n = 0
    while os.path.exists(os.path.join(REPLAYS, f"{pid}-{n}.json")):
        n += 1
    path = os.path.join(REPLAYS, f"{pid}-{n}.json")
    payload = dict(payload)
    payload["property"] = pid
    payload["kind"] = kind
    json.dump(payload, open(path, "w"), indent=1)
    return os.path.relpath(path, ROOT)


def check(pid, tier, seed):
    t0 = time.time()
    cfg = PROPS[pid]
    log = []
    broken = []          # proof obligations / correspondences that no longer check
    failing = []         # concrete failing cases (oracle failures), not known
    known_hits = {}
    framework_errors = []

    # 1. translator
    ok, msg = run_translator()
    if not ok:
        broken.append({"what": "translator", "detail": msg[-3000:]})
    # functions the function translator could not translate (rewritten outside its subset, or removed): the tie
    # theorems about them can no longer be stated - a broken tie for the properties that rest on it
    untranslated = [l for l in msg.split("\n") if l.startswith("gen_fns: UNTRANSLATED")]
    if untranslated and cfg.get("src_tie"):
        broken.append({"what": "translator:gen_fns", "detail": "\n".join(untranslated[:40])})

    # 1b. specification-side cross-checks and the property's eval script (spec oracle on source-derived data)
    framework_errors += run_framework_checks(cfg)
    known = load_known(pid)
    ev_res = run_eval_script(cfg)
    if ev_res is not None:
        if not ev_res["ok"]:
            if ok:
                framework_errors.append("eval script failed: " + ev_res["output"])
            # (with a failed translator the generated module may be missing: already reported as broken tie)
        for mm in ev_res["mismatches"]:
            text = f"eval {mm}"
            hit = next((what for rx, what in known if rx.search(text)), None)
            if hit:
                known_hits[hit] = known_hits.get(hit, 0) + 1
            else:
                failing.append(text)

    # 2. Lean build
    targets = list(cfg["modules"]) + ["driver"]
    ok, out = lake_build(targets)
    lean_ok = ok
    if not ok:
        # error lines plus what follows them (a `bv_decide` failure prints the counterexample it found on the
        # following lines: for a tie theorem between generated and reference definition that IS a failing input)
        lines_ = out.split("\n")
        errs = []
        for i, l in enumerate(lines_):
            if l.startswith("error"):
                errs.append(l)
                j = i + 1
                while j < len(lines_) and j < i + 12 and not lines_[j].startswith(("error", "warning", "✖", "✔", "⚠", "trace:")):
                    errs.append("    " + lines_[j])
                    j += 1
        failed_thms = sorted(set(re.findall(r"error: (\S+\.lean:\d+)", out)))
        broken.append({"what": "lean-build", "theorem_locations": failed_thms, "detail": "\n".join(errs[:120])})
        # the driver may still be buildable (it does not import proofs)
        ok_d, out_d = lake_build(["driver"])
        if not ok_d:
            # `driver` refers to the definitions generated from the source (third voice, Driver/Src.lean): when a
            # translated function changed its signature it no longer elaborates. The correspondence between the
            # implementation and the hand-written model must still run: fall back to the driver without that voice.
            ok_n, out_n = lake_build(["driver_nosrc"])
            if ok_n:
                global DRIVER
                DRIVER = os.path.join(LEAN, ".lake", "build", "bin", "driver_nosrc")
                derrs = [l for l in out_d.split("\n") if l.startswith("error")]
                broken.append({"what": "corr:src-voice-build",
                               "detail": "the driver's third voice (generated definitions) no longer elaborates:\n"
                                         + "\n".join(derrs[:20])})
            else:
                framework_errors.append("driver does not build: " + out_n[-2000:])

    # 3. audit
    thms = {}
    bad_axioms = {}
    if lean_ok:
        ok, thms, out = audit(pid, cfg)
        if not ok or not thms:
            framework_errors.append("axiom audit failed: " + out[-2000:])
        for t, axs in thms.items():
            bad = [a for a in axs if not axiom_ok(a, cfg)]
            if bad:
                bad_axioms[t] = bad
        if bad_axioms:
            broken.append({"what": "axiom-audit", "detail": json.dumps(bad_axioms)})
    # 3b. thorough tier: independent re-check of the compiled property modules (leanchecker replays every declaration
    # of the module's .olean through the kernel, outside the elaborator that produced it)
    leancheck = None
    if lean_ok and tier == "thorough":
        failed = []
        t0 = time.time()
        for mod in cfg["modules"]:
            rc_c, out_c = sh(["lake", "env", "leanchecker", mod], cwd=LEAN, timeout=3600)
            if rc_c != 0:
                failed.append({"module": mod, "output": out_c[-1500:]})
        leancheck = {"modules": list(cfg["modules"]), "failed": [f["module"] for f in failed],
                     "wall_s": round(time.time() - t0, 1)}
        if failed:
            broken.append({"what": "leanchecker", "detail": json.dumps(failed)[:4000]})
    tokens = forbidden_tokens()
    if tokens:
        broken.append({"what": "forbidden-token", "detail": "\n".join(tokens[:20])})

    # 4./5. harness
    runs = []
    if not cfg.get("no_harness") and not framework_errors:
        for profile in cfg.get("profiles", ["debug"]):
            ok, out = cargo_build(profile)
            if not ok:
                # Does the crate itself still compile? Then the harness no longer fits its public interface or
                # behaviour-carrying items (an impl, a trait bound, a constant) disappeared: a broken
                # correspondence, not a failure of the machinery.
                if crate_builds():
                    errs = [l for l in out.split("\n") if l.startswith("error")]
                    broken.append({"what": f"corr:harness-build profile={profile}",
                                   "detail": "the correspondence harness no longer compiles against the crate "
                                             "(the crate itself does):\n" + "\n".join(errs[:12]) + "\n" + out[-1500:]})
                    break
                framework_errors.append(f"cargo build ({profile}) failed:\n" + out[-3000:])
                continue
            r = run_pipeline(pid, profile, tier, seed)
            runs.append(r)
            if r["harness_rc"] != 0 or r["driver_rc"] != 0 or r["summary"] is None:
                # A crash of the harness is a behavioural difference: report as broken correspondence.
                broken.append({"what": f"corr:harness-crash profile={profile}",
                               "detail": (r["harness_err"] + r["driver_err"])[-2000:]})
                if r["driver_rc"] != 0:
                    continue
                # everything the harness printed before it died was still judged by the driver: keep it
            if r["U"]:
                framework_errors.append(f"driver could not interpret lines ({profile}): " + "; ".join(r["U"][:3]))
            for line in r["F"]:
                text = f"profile={profile} {line}"
                hit = None
                for rx, what in known:
                    if rx.search(text):
                        hit = what
                        break
                if hit:
                    known_hits[hit] = known_hits.get(hit, 0) + 1
                else:
                    failing.append(text)
            if r["D"]:
                ops = sorted(set(l.split()[1] for l in r["D"] if len(l.split()) > 1))
                broken.append({"what": f"corr:{','.join(ops)} profile={profile}",
                               "detail": "\n".join(r["D"][:10])})

    # 5b. a correspondence broke but no case failed the oracle: widen the search (DESIGN.md section 6, rule 2) —
    # the thorough-tier stream with another seed, time-capped, looking for an input on which the oracle fails
    widened = None
    if (tier == "quick" and not failing and not framework_errors and not cfg.get("no_harness")
            and any(b["what"].startswith("corr:") and "harness-build" not in b["what"] for b in broken)):
        widened = {"cases": 0, "oracle_failures": 0, "profiles": []}
        for profile in cfg.get("profiles", ["debug"]):
            if not os.path.exists(harness_bin(profile)):
                continue
            r = run_pipeline(pid, profile, "thorough", seed + 1000, timeout=int(os.environ.get("VERIF_WIDEN_S", "150")))
            widened["profiles"].append(profile)
            widened["cases"] += int((r["summary"] or {}).get("lines", 0) or 0)
            for line in r["F"]:
                text = f"profile={profile} [widened search, thorough stream, seed {seed + 1000}] {line}"
                hit = next((what for rx, what in known if rx.search(text)), None)
                if hit:
                    known_hits[hit] = known_hits.get(hit, 0) + 1
                else:
                    failing.append(text)
                    widened["oracle_failures"] += 1
            if failing:
                break

    # 6. decision
    for what, cnt in sorted(known_hits.items()):
        print(f"KNOWN-FINDING: property={pid} {what} ({cnt} cases)")
    status = 0
    if framework_errors:
        for e in framework_errors:
            print("FRAMEWORK-ERROR:", e)
        status = 2
    violation_line = None
    if failing:
        path = write_replay(pid, "failing-input", {
            "tier": tier, "seed": seed, "cases": failing[:50],
            "note": "each case: 'profile=<cargo profile> <lineno> <op> <args> => <implementation output> :: <model output>'; "
                    "the spec oracle of the property rejects the implementation output. "
                    "'eval <row>' cases come from the property's eval script: the spec oracle evaluated on data "
                    "re-extracted from the source text (generated=<value in the source> table=<value the spec requires>)",
            "broken": broken})
        violation_line = f"VIOLATION property={pid} replay={path}"
    elif broken:
        path = write_replay(pid, "no-failing-input-found", {
            "tier": tier, "seed": seed, "broken": broken,
            "note": "a proof obligation or a model/implementation correspondence no longer checks; "
                    "the search found no input on which the spec oracle fails"})
        violation_line = f"VIOLATION property={pid} replay={path} no-failing-input-found"
    if violation_line:
        print(violation_line)
        status = 1

    # evidence
    obligations = len(thms)
    discharged = len([t for t in thms if t not in bad_axioms]) if lean_ok else 0
    axioms_seen = summarize_axioms(thms)
    evaluations = sum(int(r["summary"]["lines"]) for r in runs if r["summary"])
    dn = sum((r["stats"] or {}).get("distinct_nontrivial", 0) for r in runs)
    samples = []
    for r in runs:
        step = max(1, len(r["E"]) // 8)
        samples += [f"[{r['profile']}] {l}" for l in r["E"][::step][:8]]
    samples += [f"theorem {t}" for t in sorted(thms)[:8]]
    coverage = {
        "obligations": max(obligations, 1) if lean_ok else max(obligations, 1),
        "discharged": discharged,
        "checker_cmd": f"cd {LEAN} && lake build {' '.join(cfg['modules'])}  # Lean 4 kernel; axioms via Lean.collectAxioms on every theorem",
        "trusted_base": ["Lean 4.33.0 kernel"] + [f"axiom {a}" for a in axioms_seen] + cfg.get("trusted", []),
        "theorems": sorted(thms),
        "evaluations": evaluations,
        "distinct_nontrivial": dn,
        "rule": cfg.get("rule", ""),
        "samples": samples or ["(no cases)"],
        "exhaustive": bool(cfg["exhaustive"].get(tier, False)) if isinstance(cfg.get("exhaustive"), dict)
        else bool(cfg.get("exhaustive", False)),
        "model_disagreements": sum(r.get("D_count", 0) for r in runs),
        "oracle_failures": sum(r.get("F_count", 0) for r in runs),
        "known_finding_cases": sum(known_hits.values()),
        "model_output_histogram": {r["profile"]: r["H"] for r in runs},
        "input_distribution": {r["profile"]: (r["stats"] or {}).get("inputs", {}) for r in runs},
        "impl_output_histogram": {r["profile"]: (r["stats"] or {}).get("classes", {}) for r in runs},
        "harness_notes": {r["profile"]: (r["stats"] or {}).get("notes", {}) for r in runs},
        "explanation": cfg.get("explanation", ""),
        "broken": broken,
        "widened_search": widened,
    }
    if cfg.get("src_tie"):
        coverage["source_tie"] = {
            "translated_functions": len(re.findall(r'"', open(os.path.join(LEAN, "X86Model", "Generated", "SrcFns.lean")).read()
                                                 .split("def translated : List String := [")[-1].split("]")[0])) // 2,
            "untranslated": [l[len("gen_fns: UNTRANSLATED "):] for l in untranslated],
            "tie_theorems": len([t for t in thms if t.startswith("X86.SrcTie.") or t.startswith("X86.RefBridge.")
                                 or t.startswith("X86.SrcModel")]),
            "third_voice_lines": sum(int((r["summary"] or {}).get("src", 0) or 0) for r in runs),
            "note": "Generated/SrcFns.lean is re-generated from /repo's source on this run; X86.SrcTie.* prove "
                    "generated = reference definition for all inputs, X86.RefBridge.* reference = Nat model; the "
                    "driver also evaluates the generated definitions on every protocol line (disagreement prefix `src`)",
        }
    if leancheck is not None:
        coverage["leanchecker"] = leancheck
    if ev_res is not None:
        coverage["uncovered"] = ev_res["uncovered"]
        coverage["spec_eval_counts"] = ev_res["counts"]
        coverage["spec_eval_mismatches"] = ev_res["mismatches"]
        if cfg.get("uncovered_note"):
            coverage["uncovered_note"] = cfg["uncovered_note"]
    ev = {
        "property_id": pid, "tier": tier, "seed": seed, "level": "proof",
        "coverage": coverage,
        "assumptions": cfg.get("assumptions", []),
        "wall_s": round(time.time() - t0, 2),
        "violations": (len(failing) if failing else (1 if broken else 0)),
    }
    os.makedirs(EVID, exist_ok=True)
    json.dump(ev, open(os.path.join(EVID, f"{pid}.json"), "w"), indent=1)
    print(f"{pid}: theorems={obligations} discharged={discharged} cases={evaluations} "
          f"disagreements={coverage['model_disagreements']} oracle_failures={coverage['oracle_failures']} "
          f"known={coverage['known_finding_cases']} wall={ev['wall_s']}s status={status}")
    return status


def setup():
    # specification-side cross-checks (e.g. architectural table vs Linux UAPI headers): a disagreement is a
    # framework error, not a verdict about the code
    spec_rc = 0
    for pid, cfg in sorted(PROPS.items()):
        for e in run_framework_checks(cfg):
            print(f"FRAMEWORK-ERROR: [{pid}] {e}")
            spec_rc = 2
    if spec_rc:
        return spec_rc
    print("specification cross-checks: ok")
    ok, msg = run_translator()
    print("translator:", "ok" if ok else "FAILED\n" + msg)
    ok1, out = lake_build(["X86Model", "driver", "driver_nosrc"])
    print("lake build:", "ok" if ok1 else "FAILED\n" + out[-4000:])
    rc = 0 if (ok and ok1) else 1
    profiles = ["debug", "release"] + sorted({p for c in PROPS.values() for p in c.get("profiles", [])} - {"debug", "release"})
    for profile in profiles:
        ok2, out = cargo_build(profile)
        print(f"cargo build {profile}:", "ok" if ok2 else "FAILED\n" + out[-4000:])
        if not ok2:
            rc = 1
    return rc


def replay(path):
    data = json.load(open(path))
    pid = data["property"]
    print(json.dumps(data, indent=1))
    if data.get("kind") == "failing-input":
        print(f"re-running: python3 run.py check {pid} --tier {data['tier']} (seed {data['seed']})")
        os.environ["VERIF_SEED"] = str(data["seed"])
        return check(pid, data["tier"], data["seed"])
    return 0


def main():
    if len(sys.argv) < 2:
        print(__doc__)
        return 2
    cmd = sys.argv[1]
    if cmd == "setup":
        return setup()
    if cmd == "check":
        pid = sys.argv[2]
        tier = os.environ.get("VERIF_TIER", "quick")
        if "--tier" in sys.argv:
            tier = sys.argv[sys.argv.index("--tier") + 1]
        seed = int(os.environ.get("VERIF_SEED", "1") or "1")
        return check(pid, tier, seed)
    if cmd == "replay":
        return replay(sys.argv[2])
    print(__doc__)
    return 2


if __name__ == "__main__":
    sys.exit(main())
