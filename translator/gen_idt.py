#!/usr/bin/env python3
"""Translator for the IDT (property C12): <repo>/src/structures/idt.rs -> lean/X86Model/Generated/IdtTables.lean
(+ harness/src/c12_fields.rs: accessors for the *public* fields of `InterruptDescriptorTable` over the compiled
crate, which the correspondence harness uses to validate this extractor on every run: measured field offsets via
`addr_of!`, writes/reads through every named field, `set_handler_fn` with a handler of the field's type).

Pure text-level extraction with a small Rust tokenizer (no rustc). What is extracted, always in source order:

  * `struct InterruptDescriptorTable { .. }`: its `#[repr(..)]` arguments and every field as
    (name, handler type H of `Entry<H>`, array length, is-array, pub)                       -> tableRepr, fields
  * `struct Entry<F> { .. }`, `struct EntryOptions { .. }`: repr arguments, (field name, type text)
                                                                                            -> entryRepr, entryFields, ...
  * `pub type <H> = extern "x86-interrupt" fn(<args>) [-> !];`: (H, number of arguments, diverging)  -> handlerTypes
  * `impl Index<u8> for InterruptDescriptorTable` / `impl IndexMut<u8> ..`: the arms of the `match` on the index,
    each as (inclusive pattern ranges, target) with target = field NAME | element NAME[v - SUB] | panic MESSAGE
                                                                                            -> indexArms, indexMutArms
  * `impl EntryOptions`: `minimal()` (cs, bits), and for `set_present`, `disable_interrupts`, `set_privilege_level`,
    `set_stack_index` the `self.<field>.set_bit(k, <e>)` / `.set_bits(a..b, <e>)` call: field, bit range, and the
    form of the value expression (`arg`, `not` (= !arg), `add` N (= arg + N); `arg as u16` counts as `arg`);
    `set_code_selector`: the assigned field                                                 -> minimal, set_*, ...
  * `Entry::missing()`: the initialiser of every field (literal / `EntryOptions::minimal()` / `PhantomData`)
                                                                                            -> missingInit
  * `InterruptDescriptorTable::new()`: per field `Entry::missing()` or `[Entry::missing(); N]`  -> newInit
  * `condition_slice_bounds`: the six bound arms (what is added to an included / excluded bound, the constant of
    an unbounded one) and the threshold of the `if lower_idx < N { panic!(..) }` guard (`<= N` is read as `< N+1`);
    `slice` / `slice_mut`: `&[mut] self.NAME[(lower_idx - A)..(upper_idx - B)]`                 -> slice*, ...

Anything that is not in one of these forms raises `IdtExtractError("<file>:<line>: ...")` -- run.py reports that as
a broken tie. Integer expressions are evaluated over literals, `+ - * / ( )`, `usize::from(x)`, `x as usize`, `*x`.
"""
import os
import re
import sys

sys.path.insert(0, os.path.dirname(os.path.abspath(__file__)))
from extract import write_if_changed  # noqa: E402

SRC = os.path.join("src", "structures", "idt.rs")


class IdtExtractError(Exception):
    pass


# ----------------------------------------------------------------------------- tokenizer

class Tok:
    __slots__ = ("kind", "text", "line")

    def __init__(self, kind, text, line):
        self.kind, self.text, self.line = kind, text, line

    def __repr__(self):
        return f"{self.kind}:{self.text}@{self.line}"


PUNCT = ("..=", "...", "<<=", ">>=", "::", "=>", "->", "..", "==", "!=", "<=", ">=", "&&", "||", "<<", ">>",
         "+=", "-=", "*=", "/=", "|=", "&=", "^=")
IDENT_RE = re.compile(r"[A-Za-z_][A-Za-z0-9_]*")
NUM_RE = re.compile(r"0[xX][0-9a-fA-F_]+|0[bB][01_]+|0[oO][0-7_]+|[0-9][0-9_]*")
SUFFIX_RE = re.compile(r"(u8|u16|u32|u64|u128|usize|i8|i16|i32|i64|i128|isize)\b")


def tokenize(src, fname):
    toks = []
    i, n, line = 0, len(src), 1
    while i < n:
        c = src[i]
        if c == "\n":
            line += 1
            i += 1
        elif c in " \t\r":
            i += 1
        elif src.startswith("//", i):
            j = src.find("\n", i)
            i = n if j < 0 else j
        elif src.startswith("/*", i):
            depth, i = 1, i + 2
            while i < n and depth:
                if src.startswith("/*", i):
                    depth, i = depth + 1, i + 2
                elif src.startswith("*/", i):
                    depth, i = depth - 1, i + 2
                else:
                    line += src[i] == "\n"
                    i += 1
            if depth:
                raise IdtExtractError(f"{fname}:{line}: unterminated block comment")
        elif c == '"':
            j, start = i + 1, line
            buf = []
            while j < n and src[j] != '"':
                if src[j] == "\\" and j + 1 < n:
                    buf.append(src[j:j + 2])
                    j += 2
                    continue
                line += src[j] == "\n"
                buf.append(src[j])
                j += 1
            if j >= n:
                raise IdtExtractError(f"{fname}:{start}: unterminated string literal")
            toks.append(Tok("str", "".join(buf), start))
            i = j + 1
        elif c == "'":
            m = re.match(r"'(\\.[^']*|[^\\'])'", src[i:])
            if m:
                toks.append(Tok("char", m.group(0), line))
                i += len(m.group(0))
            else:
                m = IDENT_RE.match(src, i + 1)
                if not m:
                    raise IdtExtractError(f"{fname}:{line}: stray quote")
                toks.append(Tok("lifetime", m.group(0), line))
                i = m.end()
        elif c.isdigit():
            m = NUM_RE.match(src, i)
            j = m.end()
            m2 = SUFFIX_RE.match(src, j)
            if m2:
                j = m2.end()
            toks.append(Tok("num", m.group(0), line))
            i = j
        elif c.isalpha() or c == "_":
            m = IDENT_RE.match(src, i)
            toks.append(Tok("id", m.group(0), line))
            i = m.end()
        else:
            hit = next((p for p in PUNCT if src.startswith(p, i)), None)
            toks.append(Tok("p", hit or c, line))
            i += len(hit) if hit else 1
    return toks


OPEN = {"(": ")", "[": "]", "{": "}"}


def num_value(text):
    return int(text.replace("_", ""), 0) if not text.lower().startswith("0o") else int(text.replace("_", "")[2:], 8)


class P:
    """Token cursor helpers bound to one file."""

    def __init__(self, toks, fname):
        self.t, self.fname = toks, fname

    def err(self, i, msg):
        line = self.t[min(i, len(self.t) - 1)].line if self.t else 0
        raise IdtExtractError(f"{self.fname}:{line}: {msg}")

    def is_(self, i, text, kind=None):
        return 0 <= i < len(self.t) and self.t[i].text == text and (kind is None or self.t[i].kind == kind) \
            and self.t[i].kind != "str"

    def close(self, i):
        """t[i] is an opening bracket; index of the matching close."""
        stack = []
        j = i
        while j < len(self.t):
            t = self.t[j]
            if t.kind == "p":
                if t.text in OPEN:
                    stack.append(OPEN[t.text])
                elif t.text in (")", "]", "}"):
                    if not stack or stack[-1] != t.text:
                        self.err(j, f"unbalanced '{t.text}'")
                    stack.pop()
                    if not stack:
                        return j
            j += 1
        self.err(i, f"unclosed '{self.t[i].text}'")

    def find_seq(self, texts, lo=0, hi=None, what=None):
        """First index in [lo, hi) where the token texts match `texts` (strings never match)."""
        hi = len(self.t) if hi is None else hi
        k = len(texts)
        for i in range(lo, hi - k + 1):
            if all(self.t[i + d].text == texts[d] and self.t[i + d].kind != "str" for d in range(k)):
                return i
        if what is not None:
            self.err(lo, f"cannot find {what}")
        return -1

    def find_all_seq(self, texts, lo=0, hi=None):
        out, i = [], lo
        while True:
            j = self.find_seq(texts, i, hi)
            if j < 0:
                return out
            out.append(j)
            i = j + 1

    def text(self, lo, hi):
        """Token texts of [lo, hi) joined in a canonical way (for type texts)."""
        s = ""
        for k in range(lo, hi):
            t = self.t[k]
            piece = '"' + t.text + '"' if t.kind == "str" else t.text
            if s and (s[-1].isalnum() or s[-1] == "_") and (piece[0].isalnum() or piece[0] == "_"):
                s += " "
            if piece in (",", ";") and s:
                s += piece + " "
                continue
            s += piece
        return s.strip()

    def split_top(self, lo, hi, sep=","):
        """Split [lo, hi) at top-level `sep`; returns list of (lo, hi), empty trailing piece dropped.
        `<`/`>` are treated as brackets only in type position, which is all this is used for besides
        expression lists without comparisons."""
        parts, depth, angle, start = [], 0, 0, lo
        for k in range(lo, hi):
            t = self.t[k]
            if t.kind != "p":
                continue
            if t.text in OPEN:
                depth += 1
            elif t.text in (")", "]", "}"):
                depth -= 1
            elif t.text == "<":
                angle += 1
            elif t.text == ">":
                angle = max(0, angle - 1)
            elif t.text == sep and depth == 0 and angle == 0:
                parts.append((start, k))
                start = k + 1
        if start < hi:
            parts.append((start, hi))
        return parts

    # -------- integer expressions

    def int_expr(self, lo, hi, env=None):
        """Evaluate an integer expression over literals, + - * / ( ), `usize::from(e)`, `e as <int type>`, `*e`,
        and the variables of `env`."""
        env = env or {}
        pos = [lo]

        def peek():
            return self.t[pos[0]] if pos[0] < hi else None

        def take(text=None):
            t = peek()
            if t is None or (text is not None and t.text != text):
                self.err(pos[0] if pos[0] < hi else hi - 1, f"expected {text or 'a token'} in integer expression "
                         f"`{self.text(lo, hi)}`")
            pos[0] += 1
            return t

        def atom():
            t = peek()
            if t is None:
                self.err(hi - 1, f"truncated integer expression `{self.text(lo, hi)}`")
            if t.kind == "num":
                take()
                return num_value(t.text)
            if t.text == "(" and t.kind == "p":
                take("(")
                v = add()
                take(")")
                return v
            if t.text == "*" and t.kind == "p":      # dereference of a bound reference
                take()
                return atom()
            if t.kind == "id":
                # usize::from(e) / u64::from(e) ...
                if pos[0] + 3 < hi and self.t[pos[0] + 1].text == "::" and self.t[pos[0] + 2].text == "from" \
                        and self.t[pos[0] + 3].text == "(" and SUFFIX_RE.fullmatch(t.text):
                    pos[0] += 3
                    take("(")
                    v = add()
                    take(")")
                    return v
                if t.text in env:
                    take()
                    return env[t.text]
            self.err(pos[0], f"cannot evaluate `{t.text}` in integer expression `{self.text(lo, hi)}`")

        def cast():
            v = atom()
            while peek() is not None and peek().text == "as" and peek().kind == "id":
                take()
                ty = take()
                if not SUFFIX_RE.fullmatch(ty.text):
                    self.err(pos[0] - 1, f"cast to non-integer type `{ty.text}`")
            return v

        def mul():
            v = cast()
            while peek() is not None and peek().kind == "p" and peek().text in ("*", "/"):
                op = take().text
                w = cast()
                v = v * w if op == "*" else v // w
            return v

        def add():
            v = mul()
            while peek() is not None and peek().kind == "p" and peek().text in ("+", "-"):
                op = take().text
                w = mul()
                v = v + w if op == "+" else v - w
            return v

        v = add()
        if pos[0] != hi:
            self.err(pos[0], f"trailing tokens in integer expression `{self.text(lo, hi)}`")
        return v

    # -------- items

    def attrs_before(self, i):
        """Attributes (`#[...]`) directly preceding the item whose first token (after `pub`) is at i.
        Returns list of (lo, hi) token ranges of the attribute bodies (inside the brackets)."""
        j = i
        while j > 0 and (self.t[j - 1].text == "pub" or (self.t[j - 1].text == ")" and self._is_pub_paren(j - 1))):
            j = j - 1 if self.t[j - 1].text == "pub" else self._pub_paren_start(j - 1)
        out = []
        while j > 0 and self.t[j - 1].text == "]":
            # find the matching '[' backwards
            depth, k = 0, j - 1
            while k >= 0:
                if self.t[k].kind == "p" and self.t[k].text in ("]", ")", "}"):
                    depth += 1
                elif self.t[k].kind == "p" and self.t[k].text in ("[", "(", "{"):
                    depth -= 1
                    if depth == 0:
                        break
                k -= 1
            if k < 1 or self.t[k - 1].text != "#":
                break
            out.append((k + 1, j - 1))
            j = k - 1
        out.reverse()
        return out

    def _is_pub_paren(self, close_idx):
        return False   # `pub(crate)` does not occur in idt.rs items we look at; kept simple on purpose

    def _pub_paren_start(self, close_idx):
        return close_idx

    def repr_args(self, attr_ranges):
        """All arguments of all `repr(..)` attributes, e.g. ["C", "align(16)"]."""
        out = []
        for lo, hi in attr_ranges:
            if hi - lo >= 3 and self.t[lo].text == "repr" and self.t[lo + 1].text == "(":
                c = self.close(lo + 1)
                for a, b in self.split_top(lo + 2, c):
                    out.append(self.text(a, b))
        return out

    def struct(self, name, generic=False):
        """Locate `struct <name>[<..>] { fields }` (the braced form). Returns (attr ranges, [(field name, pub,
        type lo, type hi, line)])."""
        for i in self.find_all_seq(["struct", name]):
            j = i + 2
            if self.is_(j, "<"):
                depth = 0
                while j < len(self.t):
                    if self.is_(j, "<"):
                        depth += 1
                    elif self.is_(j, ">"):
                        depth -= 1
                        if depth == 0:
                            j += 1
                            break
                    j += 1
            if not self.is_(j, "{"):
                continue     # tuple struct / unit struct of the same name (cfg alternative)
            c = self.close(j)
            fields = []
            for a, b in self.split_top(j + 1, c):
                k = a
                while self.is_(k, "#"):          # field attributes
                    k = self.close(k + 1) + 1
                pub = False
                if self.is_(k, "pub"):
                    pub = True
                    k += 1
                    if self.is_(k, "("):
                        k = self.close(k) + 1
                if k + 1 >= b or self.t[k].kind != "id" or not self.is_(k + 1, ":"):
                    self.err(k, f"struct {name}: cannot parse field `{self.text(a, b)}`")
                fields.append((self.t[k].text, pub, k + 2, b, self.t[k].line))
            return self.attrs_before(i), fields
        self.err(0, f"cannot find `struct {name} {{ .. }}`")

    def impl_block(self, header_texts, what):
        """Locate `impl .. {` whose header tokens (after `impl`, generics skipped by the caller's choice of
        texts) are exactly `header_texts`; returns (open brace index, close index)."""
        for i in self.find_all_seq(["impl"]):
            j = i + 1
            if self.is_(j, "<"):           # impl<F> ...
                depth = 0
                while j < len(self.t):
                    if self.is_(j, "<"):
                        depth += 1
                    elif self.is_(j, ">"):
                        depth -= 1
                        if depth == 0:
                            j += 1
                            break
                    j += 1
            k = len(header_texts)
            if j + k < len(self.t) and all(self.t[j + d].text == header_texts[d] for d in range(k)) \
                    and self.is_(j + k, "{"):
                return j + k, self.close(j + k)
        self.err(0, f"cannot find {what}")

    def fn_in(self, name, lo, hi, what=None):
        """Locate `fn <name>` inside [lo, hi); returns (params lo, params hi, body open, body close)."""
        i = self.find_seq(["fn", name], lo, hi)
        if i < 0:
            self.err(lo, f"cannot find fn {name} in {what or 'block'}")
        j = i + 2
        if self.is_(j, "<"):
            self.err(j, f"fn {name}: generic parameters not expected")
        if not self.is_(j, "("):
            self.err(j, f"fn {name}: expected parameter list")
        pc = self.close(j)
        k = pc + 1
        while k < hi and not self.is_(k, "{"):
            if self.is_(k, ";"):
                self.err(k, f"fn {name}: no body")
            k += 1
        return j + 1, pc, k, self.close(k)


# ----------------------------------------------------------------------------- extraction proper

HANDLER_FNS = {   # handler type -> name of the harness' handler function of that type
    "HandlerFunc": "h_plain",
    "HandlerFuncWithErrCode": "h_err",
    "PageFaultHandlerFunc": "h_pf",
    "DivergingHandlerFunc": "h_div",
    "DivergingHandlerFuncWithErrCode": "h_div_err",
}


def parse_table_fields(p):
    attrs, raw = p.struct("InterruptDescriptorTable")
    fields = []
    for name, pub, lo, hi, _line in raw:
        is_array, length = False, 1
        a, b = lo, hi
        if p.is_(a, "["):
            c = p.close(a)
            if c != b - 1:
                p.err(a, f"field {name}: unexpected tokens after array type")
            parts = p.split_top(a + 1, c, sep=";")
            if len(parts) != 2:
                p.err(a, f"field {name}: expected `[Entry<H>; N]`")
            (a, b), (la, lb) = parts
            length = p.int_expr(la, lb)
            is_array = True
        if not (b - a >= 4 and p.t[a].text == "Entry" and p.is_(a + 1, "<") and p.is_(b - 1, ">")):
            p.err(a, f"field {name}: type `{p.text(lo, hi)}` is not `Entry<H>` / `[Entry<H>; N]`")
        handler = p.text(a + 2, b - 1)
        if length <= 0:
            p.err(a, f"field {name}: array length {length}")
        fields.append({"name": name, "handler": handler, "len": length, "array": is_array, "pub": pub})
    return p.repr_args(attrs), fields


def parse_plain_struct(p, name):
    attrs, raw = p.struct(name)
    return p.repr_args(attrs), [(n, p.text(lo, hi)) for n, _pub, lo, hi, _l in raw]


def parse_handler_types(p):
    """`pub type H = extern "x86-interrupt" fn(args) [-> !];`"""
    out = []
    for i in p.find_all_seq(["type"]):
        if not (i + 4 < len(p.t) and p.t[i + 1].kind == "id" and p.is_(i + 2, "=") and p.is_(i + 3, "extern")
                and p.t[i + 4].kind == "str"):
            continue
        name, abi = p.t[i + 1].text, p.t[i + 4].text
        if abi != "x86-interrupt":
            continue
        if not (p.is_(i + 5, "fn") and p.is_(i + 6, "(")):
            p.err(i, f"type {name}: expected `fn(` after the ABI string")
        c = p.close(i + 6)
        nargs = len(p.split_top(i + 7, c))
        k = c + 1
        diverging = False
        if p.is_(k, "->"):
            if p.is_(k + 1, "!") and p.is_(k + 2, ";"):
                diverging = True
            else:
                p.err(k, f"type {name}: unexpected return type")
        elif not p.is_(k, ";"):
            p.err(k, f"type {name}: expected `;`")
        out.append((name, nargs, diverging))
    if not out:
        p.err(0, 'no `pub type H = extern "x86-interrupt" fn(..)` found')
    return out


def parse_pattern(p, lo, hi):
    """`[x @] N`, `[x @] A..=B`, `_`, `x`, alternatives with `|`. Returns (ranges, bound names)."""
    ranges, names = [], set()
    for a, b in p.split_top(lo, hi, sep="|"):
        if b - a >= 2 and p.t[a].kind == "id" and p.is_(a + 1, "@"):
            names.add(p.t[a].text)
            a += 2
        if b - a == 1 and p.t[a].kind == "num":
            v = num_value(p.t[a].text)
            ranges.append((v, v))
        elif b - a == 3 and p.t[a].kind == "num" and p.is_(a + 1, "..=") and p.t[a + 2].kind == "num":
            ranges.append((num_value(p.t[a].text), num_value(p.t[a + 2].text)))
        elif b - a == 1 and p.t[a].kind == "id":
            if p.t[a].text != "_":
                names.add(p.t[a].text)
            ranges.append((0, 255))
        else:
            p.err(a, f"index match: cannot parse pattern `{p.text(a, b)}`")
    for lo_, hi_ in ranges:
        if not (0 <= lo_ <= hi_ <= 255):
            p.err(lo, f"index match: pattern range {lo_}..={hi_} outside u8 / empty")
    return ranges, names


def parse_index_arms(p, trait, method, mutable):
    bo, bc = p.impl_block([trait, "<", "u8", ">", "for", "InterruptDescriptorTable"],
                          f"`impl {trait}<u8> for InterruptDescriptorTable`")
    plo, phi, fo, fc = p.fn_in(method, bo, bc, f"impl {trait}<u8>")
    # the parameter that is matched on: `index: u8`
    params = p.split_top(plo, phi)
    if len(params) != 2 or p.t[params[1][0]].kind != "id":
        p.err(plo, f"{trait}::{method}: expected (self, <name>: u8)")
    scrut = p.t[params[1][0]].text
    m = p.find_seq(["match", scrut, "{"], fo, fc)
    if m < 0:
        p.err(fo, f"{trait}::{method}: expected `match {scrut} {{ .. }}`")
    mo, mc = m + 2, p.close(m + 2)
    arms = []
    k = mo + 1
    while k < mc:
        arrow = k
        depth = 0
        while arrow < mc and not (depth == 0 and p.is_(arrow, "=>")):
            if p.t[arrow].kind == "p" and p.t[arrow].text in OPEN:
                depth += 1
            elif p.t[arrow].kind == "p" and p.t[arrow].text in (")", "]", "}"):
                depth -= 1
            arrow += 1
        if arrow >= mc:
            p.err(k, f"{trait}::{method}: arm without `=>`")
        ranges, names = parse_pattern(p, k, arrow)
        names.add(scrut)
        # body
        b0 = arrow + 1
        if p.is_(b0, "{"):
            b1 = p.close(b0)
            body = (b0 + 1, b1)
            k = b1 + 1
            if p.is_(k, ","):
                k += 1
        else:
            e = b0
            depth = 0
            while e < mc and not (depth == 0 and p.is_(e, ",")):
                if p.t[e].kind == "p" and p.t[e].text in OPEN:
                    depth += 1
                elif p.t[e].kind == "p" and p.t[e].text in (")", "]", "}"):
                    depth -= 1
                e += 1
            body = (b0, e)
            k = e + 1
        lo, hi = body
        while hi > lo and p.is_(hi - 1, ";"):
            hi -= 1
        arms.append({"ranges": ranges, "target": parse_arm_body(p, lo, hi, ranges, names, mutable), "line": p.t[lo].line})
    if not arms:
        p.err(mo, f"{trait}::{method}: no arms")
    return arms


def parse_arm_body(p, lo, hi, ranges, names, mutable):
    if hi - lo >= 3 and p.t[lo].kind == "id" and p.t[lo].text in ("panic", "unreachable", "unimplemented", "todo") \
            and p.is_(lo + 1, "!"):
        c = p.close(lo + 2)
        if c != hi - 1:
            p.err(lo, "index match: tokens after the panic macro")
        msg = p.t[lo + 3].text if lo + 3 < c and p.t[lo + 3].kind == "str" else p.t[lo].text
        return ("panic", msg, 0)
    k = lo
    if not p.is_(k, "&"):
        p.err(k, f"index match: arm body `{p.text(lo, hi)}` is neither a reference to a field nor a panic")
    k += 1
    is_mut = p.is_(k, "mut")
    if is_mut:
        k += 1
    if is_mut != mutable:
        p.err(k, f"index match: `{'&mut' if is_mut else '&'}` in {'IndexMut' if mutable else 'Index'}")
    if not (p.is_(k, "self") and p.is_(k + 1, ".") and k + 2 < hi and p.t[k + 2].kind == "id"):
        p.err(k, f"index match: arm body `{p.text(lo, hi)}` is not `&self.<field>`")
    name = p.t[k + 2].text
    k += 3
    if k == hi:
        return ("field", name, 0)
    if not p.is_(k, "["):
        p.err(k, f"index match: unexpected tokens after `self.{name}`")
    c = p.close(k)
    if c != hi - 1:
        p.err(c, f"index match: unexpected tokens after `self.{name}[..]`")
    sub = None
    for a, b in ranges:
        for v in sorted({a, b, (a + b) // 2}):
            val = p.int_expr(k + 1, c, {n: v for n in names})
            if sub is None:
                sub = v - val
            if v - val != sub:
                p.err(k, f"index match: element index `{p.text(k + 1, c)}` is not `<index> - constant`")
    if sub is None or sub < 0:
        p.err(k, f"index match: element index `{p.text(k + 1, c)}` adds to the vector")
    return ("elem", name, sub)


def stmt_ranges(p, lo, hi):
    """Top-level statements of a block body [lo, hi): split at `;`, and after a leading block statement
    (`if .. {..} [else ..]`, `match .. {..}`, `while`/`for`/`loop`) that is not followed by `;`."""
    out = []
    for a, b in p.split_top(lo, hi, sep=";"):
        while a < b and p.t[a].kind == "id" and p.t[a].text in ("if", "match", "while", "for", "loop"):
            k = a
            while True:
                while k < b and not p.is_(k, "{"):
                    if p.t[k].kind == "p" and p.t[k].text in ("(", "["):
                        k = p.close(k)
                    k += 1
                if k >= b:
                    p.err(a, "block statement without a block")
                k = p.close(k) + 1
                if k < b and p.is_(k, "else"):
                    k += 1
                    continue
                break
            if k >= b:
                break            # the block statement is the whole piece (e.g. a tail `match`)
            out.append((a, k))
            a = k
        if a < b:
            out.append((a, b))
    return out


def parse_struct_literal(p, lo, hi, name):
    """`Name { f: e, .. }` occupying [lo, hi) -> [(field, e lo, e hi)]"""
    if not (p.t[lo].text == name and p.is_(lo + 1, "{") and p.close(lo + 1) == hi - 1):
        p.err(lo, f"expected a `{name} {{ .. }}` literal, found `{p.text(lo, min(hi, lo + 12))}`")
    out = []
    for a, b in p.split_top(lo + 2, hi - 1):
        if not (p.t[a].kind == "id" and p.is_(a + 1, ":")):
            p.err(a, f"{name} literal: cannot parse `{p.text(a, b)}`")
        out.append((p.t[a].text, a + 2, b))
    return out


def tail_expr(p, fo, fc):
    """The tail expression of a function body (last statement without `;`)."""
    parts = stmt_ranges(p, fo + 1, fc)
    if not parts:
        p.err(fo, "empty function body")
    return parts[-1]


def parse_entry_options(p):
    bo, bc = p.impl_block(["EntryOptions"], "`impl EntryOptions`")
    res = {}
    # minimal()
    _plo, _phi, fo, fc = p.fn_in("minimal", bo, bc, "impl EntryOptions")
    a, b = tail_expr(p, fo, fc)
    minimal = []
    for fname, lo, hi in parse_struct_literal(p, a, b, "EntryOptions"):
        if p.t[lo].text == "SegmentSelector" and p.is_(lo + 1, "("):
            c = p.close(lo + 1)
            if c != hi - 1:
                p.err(lo, "minimal(): unexpected tokens after SegmentSelector(..)")
            val = p.int_expr(lo + 2, c)
        else:
            val = p.int_expr(lo, hi)
        minimal.append((fname, val))
    res["minimal"] = minimal
    # bit setters
    setters = []
    for fn in ("set_present", "disable_interrupts", "set_privilege_level", "set_stack_index"):
        plo, phi, fo, fc = p.fn_in(fn, bo, bc, "impl EntryOptions")
        params = p.split_top(plo, phi)
        if len(params) != 2 or p.t[params[1][0]].kind != "id":
            p.err(plo, f"{fn}: expected (&mut self, <arg>: T)")
        arg = p.t[params[1][0]].text
        found = None
        for a, b in stmt_ranges(p, fo + 1, fc):
            if b - a >= 6 and p.is_(a, "self") and p.is_(a + 1, ".") and p.t[a + 2].kind == "id" and p.is_(a + 3, ".") \
                    and p.t[a + 4].text in ("set_bit", "set_bits") and p.is_(a + 5, "("):
                if found:
                    p.err(a, f"{fn}: more than one set_bit/set_bits call")
                c = p.close(a + 5)
                if c != b - 1:
                    p.err(c, f"{fn}: unexpected tokens after the set_bit(s) call")
                args = p.split_top(a + 6, c)
                if len(args) != 2:
                    p.err(a, f"{fn}: expected two arguments")
                (ra, rb), (va, vb) = args
                if p.t[a + 4].text == "set_bit":
                    lo_ = p.int_expr(ra, rb)
                    hi_, single = lo_ + 1, True
                else:
                    dots = [k for k in range(ra, rb) if p.is_(k, "..") or p.is_(k, "..=")]
                    if len(dots) != 1:
                        p.err(ra, f"{fn}: cannot parse bit range `{p.text(ra, rb)}`")
                    lo_ = p.int_expr(ra, dots[0])
                    hi_ = p.int_expr(dots[0] + 1, rb) + (1 if p.t[dots[0]].text == "..=" else 0)
                    single = False
                toks = [p.t[k].text for k in range(va, vb)]
                if toks == [arg]:
                    form, addend = "arg", 0
                elif len(toks) == 3 and toks[0] == arg and toks[1] == "as" and SUFFIX_RE.fullmatch(toks[2]):
                    form, addend = "arg", 0
                elif toks == ["!", arg]:
                    form, addend = "not", 0
                elif len(toks) == 3 and toks[0] == arg and toks[1] == "+" and p.t[va + 2].kind == "num":
                    form, addend = "add", num_value(toks[2])
                elif len(toks) == 3 and toks[2] == arg and toks[1] == "+" and p.t[va].kind == "num":
                    form, addend = "add", num_value(toks[0])
                else:
                    p.err(va, f"{fn}: value expression `{p.text(va, vb)}` is not `{arg}`, `!{arg}`, "
                          f"`{arg} as uN` or `{arg} + N`")
                found = {"fn": fn, "field": p.t[a + 2].text, "lo": lo_, "hi": hi_, "single": single,
                         "form": form, "addend": addend}
            elif b - a == 1 and p.is_(a, "self"):
                pass          # the tail expression `self`
            else:
                p.err(a, f"{fn}: unexpected statement `{p.text(a, b)}`")
        if not found:
            p.err(fo, f"{fn}: no `self.<field>.set_bit(s)(..)` call found")
        setters.append(found)
    res["setters"] = setters
    # set_code_selector: `self.<field> = <arg>;`
    plo, phi, fo, fc = p.fn_in("set_code_selector", bo, bc, "impl EntryOptions")
    params = p.split_top(plo, phi)
    if len(params) != 2:
        p.err(plo, "set_code_selector: expected (&mut self, <arg>: SegmentSelector)")
    arg = p.t[params[1][0]].text
    target = None
    for a, b in stmt_ranges(p, fo + 1, fc):
        if b - a == 5 and p.is_(a, "self") and p.is_(a + 1, ".") and p.is_(a + 3, "=") and p.t[a + 4].text == arg:
            target = p.t[a + 2].text
        elif b - a == 1 and p.is_(a, "self"):
            pass
        else:
            p.err(a, f"set_code_selector: unexpected statement `{p.text(a, b)}`")
    if target is None:
        p.err(fo, "set_code_selector: no `self.<field> = <arg>` found")
    res["code_selector_field"] = target
    return res


def entry_impl(p):
    """`impl<F> Entry<F> { .. }` containing `missing`."""
    for i in p.find_all_seq(["Entry", "<", "F", ">", "{"]):
        if i >= 1 and (p.is_(i - 1, ">") or p.is_(i - 1, "impl")):
            bo, bc = i + 4, p.close(i + 4)
            if p.find_seq(["fn", "missing"], bo, bc) >= 0:
                return bo, bc
    p.err(0, "cannot find `impl<F> Entry<F>` with `fn missing`")


def parse_missing(p):
    bo, bc = entry_impl(p)
    _plo, _phi, fo, fc = p.fn_in("missing", bo, bc, "impl Entry<F>")
    a, b = tail_expr(p, fo, fc)
    out = []
    for fname, lo, hi in parse_struct_literal(p, a, b, "Entry"):
        txt = p.text(lo, hi)
        if txt == "EntryOptions::minimal()":
            out.append((fname, "minimal", 0))
        elif txt == "PhantomData":
            out.append((fname, "phantom", 0))
        else:
            out.append((fname, "lit", p.int_expr(lo, hi)))
    return out


def parse_new(p):
    bo, bc = p.impl_block(["InterruptDescriptorTable"], "`impl InterruptDescriptorTable`")
    _plo, _phi, fo, fc = p.fn_in("new", bo, bc, "impl InterruptDescriptorTable")
    a, b = tail_expr(p, fo, fc)
    out = []
    for fname, lo, hi in parse_struct_literal(p, a, b, "InterruptDescriptorTable"):
        txt = p.text(lo, hi)
        if txt == "Entry::missing()":
            out.append((fname, "missing", 1))
        elif p.is_(lo, "[") and p.close(lo) == hi - 1:
            parts = p.split_top(lo + 1, hi - 1, sep=";")
            if len(parts) == 2 and p.text(*parts[0]) == "Entry::missing()":
                out.append((fname, "missing", p.int_expr(*parts[1])))
            else:
                p.err(lo, f"new(): field {fname} initialised with `{txt}`")
        else:
            p.err(lo, f"new(): field {fname} initialised with `{txt}`")
    return out, (bo, bc)


def parse_slices(p, impl_range):
    bo, bc = impl_range
    res = {}
    plo, phi, fo, fc = p.fn_in("condition_slice_bounds", bo, bc, "impl InterruptDescriptorTable")
    params = p.split_top(plo, phi)
    if len(params) != 2:
        p.err(plo, "condition_slice_bounds: expected (&self, bounds)")
    bounds_name = p.t[params[1][0]].text
    for which, method in (("start", "start_bound"), ("end", "end_bound")):
        m = p.find_seq(["match", bounds_name, ".", method, "(", ")", "{"], fo, fc)
        if m < 0:
            p.err(fo, f"condition_slice_bounds: no `match {bounds_name}.{method}() {{ .. }}`")
        mo, mc = m + 6, p.close(m + 6)
        got = {}
        for a, b in p.split_top(mo + 1, mc):
            arrow = next((k for k in range(a, b) if p.is_(k, "=>")), None)
            if arrow is None:
                p.err(a, f"condition_slice_bounds: arm without `=>`: `{p.text(a, b)}`")
            head = p.t[a].text
            if head in ("Included", "Excluded") and p.is_(a + 1, "(") and p.t[a + 2].kind == "id" and p.is_(a + 3, ")") \
                    and arrow == a + 4:
                var = p.t[a + 2].text
                v0 = p.int_expr(arrow + 1, b, {var: 0})
                v1 = p.int_expr(arrow + 1, b, {var: 200})
                if v1 - v0 != 200:
                    p.err(arrow, f"condition_slice_bounds: `{p.text(arrow + 1, b)}` is not `<bound> + constant`")
                got[head] = v0
            elif head == "Unbounded" and arrow == a + 1:
                got[head] = p.int_expr(arrow + 1, b)
            else:
                p.err(a, f"condition_slice_bounds: cannot parse arm `{p.text(a, b)}`")
        if set(got) != {"Included", "Excluded", "Unbounded"}:
            p.err(mo, f"condition_slice_bounds: {method} arms are {sorted(got)}")
        res[which] = (got["Included"], got["Excluded"], got["Unbounded"])
    # the guard: `if lower_idx < N { panic!(..) }`
    g = None
    for i in p.find_all_seq(["if"], fo, fc):
        if p.t[i + 1].kind == "id" and (p.is_(i + 2, "<") or p.is_(i + 2, "<=")) and p.t[i + 3].kind == "num" \
                and p.is_(i + 4, "{"):
            c = p.close(i + 4)
            if p.find_seq(["panic", "!"], i + 4, c) < 0:
                p.err(i, "condition_slice_bounds: guard does not panic")
            if g is not None:
                p.err(i, "condition_slice_bounds: more than one guard")
            g = (p.t[i + 1].text, num_value(p.t[i + 3].text) + (1 if p.is_(i + 2, "<=") else 0))
    if g is None:
        p.err(fo, "condition_slice_bounds: no `if <lower> < N { panic!(..) }` guard found")
    # which of the returned pair is guarded: the tail expression `(lower_idx, upper_idx)`
    a, b = tail_expr(p, fo, fc)
    if not (p.is_(a, "(") and p.close(a) == b - 1):
        p.err(a, "condition_slice_bounds: tail expression is not a pair")
    pair = [p.text(x, y) for x, y in p.split_top(a + 1, b - 1)]
    if len(pair) != 2 or pair[0] != g[0]:
        p.err(a, f"condition_slice_bounds: the guard tests `{g[0]}`, the function returns `({', '.join(pair)})`")
    res["min_lower"] = g[1]
    # slice / slice_mut
    for fn, mutable in (("slice", False), ("slice_mut", True)):
        _plo, _phi, fo, fc = p.fn_in(fn, bo, bc, "impl InterruptDescriptorTable")
        parts = stmt_ranges(p, fo + 1, fc)
        if len(parts) != 2:
            p.err(fo, f"{fn}: expected a `let (lo, hi) = self.condition_slice_bounds(..)` and a tail expression")
        la, lb = parts[0]
        if not (p.is_(la, "let") and p.is_(la + 1, "(") and p.t[la + 2].kind == "id" and p.is_(la + 3, ",")
                and p.t[la + 4].kind == "id" and p.is_(la + 5, ")") and p.is_(la + 6, "=")
                and p.text(la + 7, lb).startswith("self.condition_slice_bounds(")):
            p.err(la, f"{fn}: cannot parse `{p.text(la, lb)}`")
        lo_name, hi_name = p.t[la + 2].text, p.t[la + 4].text
        a, b = parts[1]
        k = a
        if not p.is_(k, "&"):
            p.err(k, f"{fn}: tail expression is not a reference")
        k += 1
        is_mut = p.is_(k, "mut")
        k += is_mut
        if is_mut != mutable:
            p.err(k, f"{fn}: mutability of the returned reference")
        if not (p.is_(k, "self") and p.is_(k + 1, ".") and p.t[k + 2].kind == "id" and p.is_(k + 3, "[")
                and p.close(k + 3) == b - 1):
            p.err(k, f"{fn}: tail expression `{p.text(a, b)}` is not `&self.<field>[a..b]`")
        field = p.t[k + 2].text
        dots = [d for d in range(k + 4, b - 1) if p.is_(d, "..")]
        if len(dots) != 1:
            p.err(k, f"{fn}: cannot parse the range `{p.text(k + 4, b - 1)}`")
        subs = []
        for (x, y), var in (((k + 4, dots[0]), lo_name), ((dots[0] + 1, b - 1), hi_name)):
            v0 = p.int_expr(x, y, {var: 1000})
            v1 = p.int_expr(x, y, {var: 1200})
            if v1 - v0 != 200 or v0 > 1000:
                p.err(x, f"{fn}: `{p.text(x, y)}` is not `{var} - constant`")
            subs.append(1000 - v0)
        res[fn] = (field, subs[0], subs[1])
    return res


def extract(repo):
    path = os.path.join(repo, SRC)
    src = open(path).read()
    p = P(tokenize(src, SRC), SRC)
    ex = {}
    ex["table_repr"], ex["fields"] = parse_table_fields(p)
    ex["entry_repr"], ex["entry_fields"] = parse_plain_struct(p, "Entry")
    ex["opts_repr"], ex["opts_fields"] = parse_plain_struct(p, "EntryOptions")
    ex["handler_types"] = parse_handler_types(p)
    known = {h for h, _, _ in ex["handler_types"]}
    for f in ex["fields"]:
        if f["handler"] not in known:
            raise IdtExtractError(f"{SRC}: field {f['name']}: handler type `{f['handler']}` has no "
                                  f"`extern \"x86-interrupt\" fn` definition")
    ex["index_arms"] = parse_index_arms(p, "Index", "index", False)
    ex["index_mut_arms"] = parse_index_arms(p, "IndexMut", "index_mut", True)
    ex["opts"] = parse_entry_options(p)
    ex["missing"] = parse_missing(p)
    ex["new"], impl_range = parse_new(p)
    ex["slices"] = parse_slices(p, impl_range)
    # cross-checks that the Rust compiler would make as well (they make a parse slip visible here)
    names = [f["name"] for f in ex["fields"]]
    if len(set(names)) != len(names):
        raise IdtExtractError(f"{SRC}: duplicate field names in InterruptDescriptorTable")
    if [n for n, _, _ in ex["new"]] and sorted(n for n, _, _ in ex["new"]) != sorted(names):
        raise IdtExtractError(f"{SRC}: new() does not initialise exactly the declared fields")
    for arms in (ex["index_arms"], ex["index_mut_arms"]):
        for arm in arms:
            kind, name, _ = arm["target"]
            if kind != "panic" and name not in names:
                raise IdtExtractError(f"{SRC}:{arm['line']}: index arm refers to unknown field `{name}`")
    return ex


# ----------------------------------------------------------------------------- rendering

def lstr(s):
    return '"' + s.replace("\\", "\\\\").replace('"', '\\"') + '"'


def lbool(b):
    return "true" if b else "false"


def render_arms(name, arms, doc, names):
    lines = [f"/-- {doc} -/", f"def {name} : List Arm := ["]
    rows = []
    for arm in arms:
        pats = ", ".join(f"({a}, {b})" for a, b in arm["ranges"])
        kind, nm, sub = arm["target"]
        if kind == "field":
            tgt = f".field {lstr(nm)} {names.index(nm)}"
        elif kind == "elem":
            tgt = f".elem {lstr(nm)} {names.index(nm)} {sub}"
        else:
            why = next((w for w in ("reserved", "error code", "diverging") if w in nm), "")
            tgt = f".panic {lstr(nm)} {lstr(why)}"
        rows.append(f"  ⟨[{pats}], {tgt}⟩")
    lines.append(",\n".join(rows) + " ]")
    return "\n".join(lines)


def render_lean(ex):
    o = []
    o.append("""/-
GENERATED by translator/gen_idt.py from src/structures/idt.rs -- do not edit.
Rewritten on every `run.py` invocation. What each table is: see the header of gen_idt.py.
Only core is imported: this file is linked into the `driver` executable.
-/
namespace X86.Generated.Idt

/-- One field of `struct InterruptDescriptorTable`: `name: Entry<handler>` (len 1, isArray false) or
`name: [Entry<handler>; len]`. -/
structure Field where
  name : String
  handler : String
  len : Nat
  isArray : Bool
  pub : Bool
  deriving DecidableEq, Repr

/-- Right-hand side of an arm of the `match` in `Index<u8>::index` / `IndexMut<u8>::index_mut`. -/
inductive Target where
  /-- `&[mut] self.<name>`; `idx` = position of the field in `fields` -/
  | field (name : String) (idx : Nat)
  /-- `&[mut] self.<name>[<index> - sub]` -/
  | elem (name : String) (idx : Nat) (sub : Nat)
  /-- `panic!(<msg>, ..)`; `reason` = which of the words "reserved" / "error code" / "diverging" the message
  contains (first that does, "" if none) -/
  | panic (msg : String) (reason : String)
  deriving DecidableEq, Repr

/-- One arm: the inclusive ranges of its `|`-alternatives and its right-hand side. -/
structure Arm where
  pats : List (Nat × Nat)
  target : Target
  deriving DecidableEq, Repr

/-- `self.<field>.set_bit(lo, e)` (single) or `self.<field>.set_bits(lo..hi, e)` (hi exclusive) in an option
setter; `form` describes `e`: "arg" (the argument, possibly `as u16`), "not" (`!arg`), "add" (`arg + addend`). -/
structure BitSetter where
  fn : String
  field : String
  lo : Nat
  hi : Nat
  single : Bool
  form : String
  addend : Nat
  deriving DecidableEq, Repr
""")
    o.append("/-- Arguments of the `#[repr(..)]` attributes of `struct InterruptDescriptorTable`. -/")
    o.append(f"def tableRepr : List String := [{', '.join(lstr(s) for s in ex['table_repr'])}]")
    aligns = [int(m.group(1)) for r in ex["table_repr"] for m in [re.fullmatch(r"align\((\d+)\)", r)] if m]
    if len(aligns) > 1:
        raise IdtExtractError(f"{SRC}: InterruptDescriptorTable has more than one repr(align(..))")
    o.append("/-- N of `repr(align(N))` (1 if absent). -/")
    o.append(f"def tableAlign : Nat := {aligns[0] if aligns else 1}\n")
    o.append("/-- Fields of `struct InterruptDescriptorTable` in declaration order. -/")
    o.append("def fields : List Field := [")
    o.append(",\n".join(
        f"  ⟨{lstr(f['name'])}, {lstr(f['handler'])}, {f['len']}, {lbool(f['array'])}, {lbool(f['pub'])}⟩"
        for f in ex["fields"]) + " ]\n")
    o.append("/-- `pub type H = extern \"x86-interrupt\" fn(..) [-> !]`: (H, number of arguments, diverging). -/")
    o.append("def handlerTypes : List (String × Nat × Bool) := [")
    o.append(",\n".join(f"  ({lstr(h)}, {n}, {lbool(d)})" for h, n, d in ex["handler_types"]) + " ]\n")
    names = [f["name"] for f in ex["fields"]]
    o.append(render_arms("indexArms", ex["index_arms"], "Arms of `impl Index<u8>`, in source order (first match wins).",
                         names))
    o.append("")
    o.append(render_arms("indexMutArms", ex["index_mut_arms"], "Arms of `impl IndexMut<u8>`, in source order.", names))
    o.append("")
    o.append("/-- `struct Entry<F>`: repr arguments and (field, type) in declaration order. -/")
    o.append(f"def entryRepr : List String := [{', '.join(lstr(s) for s in ex['entry_repr'])}]")
    o.append("def entryFields : List (String × String) := [" +
             ", ".join(f"({lstr(n)}, {lstr(t)})" for n, t in ex["entry_fields"]) + "]\n")
    o.append("/-- `struct EntryOptions`: repr arguments and (field, type) in declaration order. -/")
    o.append(f"def entryOptionsRepr : List String := [{', '.join(lstr(s) for s in ex['opts_repr'])}]")
    o.append("def entryOptionsFields : List (String × String) := [" +
             ", ".join(f"({lstr(n)}, {lstr(t)})" for n, t in ex["opts_fields"]) + "]\n")
    o.append("/-- `EntryOptions::minimal()`: (field, value). -/")
    o.append("def minimal : List (String × Nat) := [" +
             ", ".join(f"({lstr(n)}, {v:#x})" for n, v in ex["opts"]["minimal"]) + "]\n")
    for s in ex["opts"]["setters"]:
        o.append(f"def {s['fn']} : BitSetter := ⟨{lstr(s['fn'])}, {lstr(s['field'])}, {s['lo']}, {s['hi']}, "
                 f"{lbool(s['single'])}, {lstr(s['form'])}, {s['addend']}⟩")
    o.append("def bitSetters : List BitSetter := [" + ", ".join(s["fn"] for s in ex["opts"]["setters"]) + "]\n")
    o.append("/-- The field `set_code_selector` assigns. -/")
    o.append(f"def codeSelectorField : String := {lstr(ex['opts']['code_selector_field'])}\n")
    o.append("/-- `Entry::missing()`: (field, kind, value) with kind \"lit\" (integer literal), \"minimal\" "
             "(`EntryOptions::minimal()`), \"phantom\". -/")
    o.append("def missingInit : List (String × String × Nat) := [" +
             ", ".join(f"({lstr(n)}, {lstr(k)}, {v})" for n, k, v in ex["missing"]) + "]\n")
    o.append("/-- `InterruptDescriptorTable::new()`: (field, initialiser, count); \"missing\" = `Entry::missing()` "
             "(count 1) or `[Entry::missing(); count]`. -/")
    o.append("def newInit : List (String × String × Nat) := [")
    o.append(",\n".join(f"  ({lstr(n)}, {lstr(k)}, {v})" for n, k, v in ex["new"]) + " ]\n")
    sl = ex["slices"]
    o.append("/-- `condition_slice_bounds`: what is added to an `Included` / `Excluded` bound and the value of an "
             "`Unbounded` one, for the start and the end bound. -/")
    o.append(f"def sliceStart : Nat × Nat × Nat := ({sl['start'][0]}, {sl['start'][1]}, {sl['start'][2]})")
    o.append(f"def sliceEnd : Nat × Nat × Nat := ({sl['end'][0]}, {sl['end'][1]}, {sl['end'][2]})")
    o.append("/-- `if lower_idx < sliceMinLower { panic!(..) }`. -/")
    o.append(f"def sliceMinLower : Nat := {sl['min_lower']}")
    o.append("/-- `slice` / `slice_mut`: `&[mut] self.<field>[(lower_idx - a)..(upper_idx - b)]` as "
             "(field, position of the field in `fields`, a, b). -/")
    for nm, key in (("sliceBody", "slice"), ("sliceMutBody", "slice_mut")):
        if sl[key][0] not in names:
            raise IdtExtractError(f"{SRC}: {key} refers to unknown field `{sl[key][0]}`")
        o.append(f"def {nm} : String × Nat × Nat × Nat := ({lstr(sl[key][0])}, {names.index(sl[key][0])}, "
                 f"{sl[key][1]}, {sl[key][2]})")
    o.append("\nend X86.Generated.Idt\n")
    return "\n".join(o)


def render_rust(ex):
    pub = [(k, f) for k, f in enumerate(ex["fields"]) if f["pub"] and not f["array"]]
    for _k, f in pub:
        if f["handler"] not in HANDLER_FNS:
            raise IdtExtractError(f"{SRC}: field {f['name']}: no harness handler for type `{f['handler']}`")
    o = []
    o.append("// GENERATED by translator/gen_idt.py -- do not edit. Rewritten on every run.py invocation.")
    o.append("// Accessors for the public fields of InterruptDescriptorTable over the COMPILED crate; the first")
    o.append("// component is the index of the field in lean/X86Model/Generated/IdtTables.lean `fields`.")
    o.append("#![allow(unused_imports, clippy::all)]")
    o.append("use core::mem::size_of_val;")
    o.append("use core::ptr::addr_of;")
    o.append("use x86_64::structures::idt::InterruptDescriptorTable;")
    o.append("use x86_64::VirtAddr;")
    o.append("use super::c12::{h_plain, h_err, h_pf, h_div, h_div_err};")
    o.append("")
    o.append(f"pub const N_FIELDS: usize = {len(ex['fields'])};")
    o.append("/// (index, name, array length, is public)")
    o.append("pub const FIELDS: &[(usize, &str, usize, bool)] = &[")
    for k, f in enumerate(ex["fields"]):
        o.append(f"    ({k}, \"{f['name']}\", {f['len']}, {lbool(f['pub'])}),")
    o.append("];")
    o.append("/// Indices of the public non-array fields.")
    o.append("pub const PUBLIC: &[usize] = &[" + ", ".join(str(k) for k, _ in pub) + "];")
    o.append("")
    o.append("/// (byte offset, size in bytes) of public field `k`, measured on a real table.")
    o.append("pub fn offset_size(idt: &InterruptDescriptorTable, k: usize) -> Option<(usize, usize)> {")
    o.append("    let base = idt as *const InterruptDescriptorTable as usize;")
    o.append("    match k {")
    for k, f in pub:
        o.append(f"        {k} => Some((addr_of!(idt.{f['name']}) as usize - base, size_of_val(&idt.{f['name']}))),")
    o.append("        _ => None,")
    o.append("    }")
    o.append("}")
    o.append("")
    o.append("/// `idt.<field>.set_handler_addr(a)` through the named field `k`.")
    o.append("pub fn set_addr(idt: &mut InterruptDescriptorTable, k: usize, a: VirtAddr) -> bool {")
    o.append("    match k {")
    for k, f in pub:
        o.append(f"        {k} => {{ unsafe {{ idt.{f['name']}.set_handler_addr(a); }} true }}")
    o.append("        _ => false,")
    o.append("    }")
    o.append("}")
    o.append("")
    o.append("/// `idt.<field>.set_handler_fn(h)` with a handler of the field's declared type; returns the handler's address.")
    o.append("pub fn set_fn(idt: &mut InterruptDescriptorTable, k: usize) -> Option<u64> {")
    o.append("    match k {")
    for k, f in pub:
        h = HANDLER_FNS[f["handler"]]
        o.append(f"        {k} => {{ idt.{f['name']}.set_handler_fn({h}); Some({h} as *const () as usize as u64) }}")
    o.append("        _ => None,")
    o.append("    }")
    o.append("}")
    o.append("")
    o.append("/// `idt.<field>.handler_addr()` through the named field `k`.")
    o.append("pub fn get_addr(idt: &InterruptDescriptorTable, k: usize) -> Option<u64> {")
    o.append("    match k {")
    for k, f in pub:
        o.append(f"        {k} => Some(idt.{f['name']}.handler_addr().as_u64()),")
    o.append("        _ => None,")
    o.append("    }")
    o.append("}")
    return "\n".join(o) + "\n"


def generate(repo, outdir):
    ex = extract(repo)
    files = []
    lean_path = os.path.join(outdir, "IdtTables.lean")
    write_if_changed(lean_path, render_lean(ex))
    files.append(lean_path)
    root = os.path.dirname(os.path.dirname(os.path.abspath(__file__)))
    rust_path = os.path.join(root, "harness", "src", "c12_fields.rs")
    write_if_changed(rust_path, render_rust(ex))
    files.append(rust_path)
    return files


if __name__ == "__main__":
    import pprint
    pprint.pprint(extract(sys.argv[1] if len(sys.argv) > 1 else "/repo"), width=140)
