#!/usr/bin/env python3
"""Translator for C13: /repo/src/structures/idt.rs -> lean/X86Model/Generated/GeneralHandler.lean
(+ harness/src/c13_gen.rs: the same layout facts read from the COMPILED crate, used by the harness to
validate this extractor on every run).

Text-level extraction with a small Rust tokenizer (no rustc). What is extracted, every run:

  * `macro_rules! set_general_handler_entry`: every arm in source order (macro_rules! takes the FIRST
    matching arm) -- the 8 literal bits of its matcher (bit7 first) or the catch-all `$(, $_bits:tt)*`,
    and from its transcriber: empty (`=> {}`) or exactly one `extern "x86-interrupt" fn handler(..)`
    (parameters, `-> !`; the names of the stub and of its parameters are free), one call
    `$handler(<frame param>, <index>[.into()], <error>)`, an optional trailing `panic!(..)`, and one
    `$idt.<field>.set_handler_fn(<stub>)` / `$idt[<expr>].set_handler_fn(<stub>)`.
  * `macro_rules! set_general_handler_recursive_bits`: the 8-bit arm (names and order of the `$bitN:tt`
    fragments, the `const IDX: u8 = ...` formula as (bit, shift) terms, the guard `$range.contains(&IDX)`,
    the order in which the bits are handed to `set_general_handler_entry!`) and the recursive arm (the
    literals it appends, where, and in which order).
  * `macro_rules! set_general_handler`: the three forms -- whole table (the literal range it forwards),
    single index (`$idx:literal` -> the range built from it), range (`impl RangeBounds<T>` bound type, the
    recursive macro started with zero bits, the `GENERAL_HANDLER` constant's type).
  * `struct InterruptDescriptorTable` (fields in declaration order: name, handler type, array length,
    visibility), the handler type aliases (error-code parameter, `-> !`), `GeneralHandlerFunc`,
    the arms of `impl IndexMut<u8> for InterruptDescriptorTable`.
  * `struct InterruptStackFrameValue` (field order, types, sizes, `#[repr(C)]`), `InterruptStackFrame`
    (`#[repr(transparent)]` wrapper), and the `asm!` of `InterruptStackFrameValue::iretq`
    (template lines and operand bindings).

Anything that does not have exactly the expected shape raises ExtractError("idt.rs:<line>: ...") -- run.py
reports that as a broken tie. The Lean side (Model/GeneralHandler.lean) interprets these tables; it contains
no vector number, field name or offset of its own.
"""
import os
import re
import sys

sys.path.insert(0, os.path.dirname(os.path.abspath(__file__)))
from extract import write_if_changed  # noqa: E402

SRC = os.path.join("src", "structures", "idt.rs")


class ExtractError(Exception):
    pass


# ----------------------------------------------------------------------------- tokenizer

class Tok:
    __slots__ = ("kind", "text", "line")

    def __init__(self, kind, text, line):
        self.kind, self.text, self.line = kind, text, line

    def __repr__(self):
        return f"{self.text}@{self.line}"


PUNCT = ("<<=", ">>=", "..=", "...", "<<", ">>", "::", "=>", "->", "..", "==", "!=", "<=", ">=", "&&", "||")
IDENT_RE = re.compile(r"[A-Za-z_][A-Za-z0-9_]*")
NUM_RE = re.compile(r"0[xX][0-9a-fA-F_]+|0[bB][01_]+|0[oO][0-7_]+|[0-9][0-9_]*")


def tokenize(src):
    toks = []
    i, n, line = 0, len(src), 1
    while i < n:
        c = src[i]
        if c == "\n":
            line += 1
            i += 1
        elif c in " \t\r":
            i += 1
        elif src.startswith("//", i):
            j = src.find("\n", i)
            i = n if j < 0 else j
        elif src.startswith("/*", i):
            j = src.find("*/", i)
            if j < 0:
                raise ExtractError(f"idt.rs:{line}: unterminated block comment")
            line += src.count("\n", i, j)
            i = j + 2
        elif c == '"':
            j = i + 1
            while j < n and src[j] != '"':
                if src[j] == "\\":
                    j += 1
                j += 1
            if j >= n:
                raise ExtractError(f"idt.rs:{line}: unterminated string literal")
            toks.append(Tok("str", src[i + 1:j], line))
            line += src.count("\n", i, j)
            i = j + 1
        elif c == "'":
            m = re.match(r"'(\\.[^']*|[^\\'])'", src[i:])
            if m:
                toks.append(Tok("char", m.group(0), line))
                i += len(m.group(0))
            else:
                m = re.match(r"'[A-Za-z_][A-Za-z0-9_]*", src[i:])
                if not m:
                    raise ExtractError(f"idt.rs:{line}: stray quote")
                toks.append(Tok("life", m.group(0), line))
                i += len(m.group(0))
        elif c.isalpha() or c == "_":
            m = IDENT_RE.match(src, i)
            toks.append(Tok("id", m.group(0), line))
            i = m.end()
        elif c.isdigit():
            m = NUM_RE.match(src, i)
            j = m.end()
            ms = re.compile(r"(u8|u16|u32|u64|u128|usize|i8|i16|i32|i64|isize)").match(src, j)
            if ms:
                j = ms.end()
            toks.append(Tok("num", src[i:j], line))
            i = j
        else:
            for p in PUNCT:
                if src.startswith(p, i):
                    toks.append(Tok("p", p, line))
                    i += len(p)
                    break
            else:
                toks.append(Tok("p", c, line))
                i += 1
    return toks


OPEN = {"(": ")", "[": "]", "{": "}"}
CLOSE = set(OPEN.values())


def match_close(toks, i):
    """toks[i] is an opening delimiter; index of its partner."""
    want = [OPEN[toks[i].text]]
    j = i + 1
    while j < len(toks):
        t = toks[j].text
        if toks[j].kind == "p" and t in OPEN:
            want.append(OPEN[t])
        elif toks[j].kind == "p" and t in CLOSE:
            if t != want[-1]:
                raise ExtractError(f"idt.rs:{toks[j].line}: unbalanced delimiter {t}")
            want.pop()
            if not want:
                return j
        j += 1
    raise ExtractError(f"idt.rs:{toks[i].line}: unclosed delimiter {toks[i].text}")


def texts(toks):
    return [t.text for t in toks]


def join(toks):
    return "".join(t.text if t.kind != "str" else '"' + t.text + '"' for t in toks)


def split_top(toks, sep=","):
    """Split a token list at separators that are not inside a delimiter pair."""
    parts, cur, depth = [], [], 0
    for t in toks:
        if t.kind == "p" and t.text in OPEN:
            depth += 1
        elif t.kind == "p" and t.text in CLOSE:
            depth -= 1
        if depth == 0 and t.kind == "p" and t.text == sep:
            parts.append(cur)
            cur = []
        else:
            cur.append(t)
    parts.append(cur)
    return parts


def fail(tok_or_line, msg):
    line = tok_or_line.line if isinstance(tok_or_line, Tok) else tok_or_line
    raise ExtractError(f"idt.rs:{line}: {msg}")


def find_seq(toks, seq, start=0):
    """Index of the first occurrence of the token texts `seq` at or after `start` (-1 if none)."""
    n = len(seq)
    for i in range(start, len(toks) - n + 1):
        if all(toks[i + k].text == seq[k] and toks[i + k].kind != "str" for k in range(n)):
            return i
    return -1


def find_all(toks, seq):
    out, i = [], 0
    while True:
        i = find_seq(toks, seq, i)
        if i < 0:
            return out
        out.append(i)
        i += 1


def int_lit(tok):
    if tok.kind != "num":
        fail(tok, f"expected an integer literal, found `{tok.text}`")
    s = re.sub(r"(u8|u16|u32|u64|u128|usize|i8|i16|i32|i64|isize)$", "", tok.text).replace("_", "")
    return int(s, 0) if not re.match(r"0[0-9]", s) else int(s, 10)


def eval_arith(toks):
    """`6`, `256 - 32`: integer literals with + - * only."""
    if not toks:
        raise ExtractError("empty array length")
    val = int_lit(toks[0])
    i = 1
    while i < len(toks):
        op, rhs = toks[i].text, int_lit(toks[i + 1])
        if op == "+":
            val += rhs
        elif op == "-":
            val -= rhs
        elif op == "*":
            val *= rhs
        else:
            fail(toks[i], f"unsupported operator `{op}` in an array length")
        i += 2
    return val


def attrs_before(toks, i):
    """Attribute token groups (`#[...]`) directly in front of toks[i] (skipping `pub`)."""
    out = []
    j = i - 1
    while j >= 0:
        if toks[j].text == "pub" or toks[j].kind == "str":
            j -= 1
            continue
        if toks[j].text == "]":
            # find the matching '[' backwards
            depth, k = 0, j
            while k >= 0:
                if toks[k].text == "]":
                    depth += 1
                elif toks[k].text == "[":
                    depth -= 1
                    if depth == 0:
                        break
                k -= 1
            if k >= 1 and toks[k - 1].text == "#":
                out.append(join(toks[k + 1:j]))
                j = k - 2
                continue
        break
    return out


# ----------------------------------------------------------------------------- macros

def macro_arms(toks, name):
    """[(matcher tokens, transcriber tokens, line)] of `macro_rules! name { ... }`."""
    hits = find_all(toks, ["macro_rules", "!", name])
    if len(hits) != 1:
        raise ExtractError(f"idt.rs: expected exactly one `macro_rules! {name}`, found {len(hits)}")
    i = hits[0] + 3
    if toks[i].text not in OPEN:
        fail(toks[i], f"macro_rules! {name}: body expected")
    end = match_close(toks, i)
    arms, j = [], i + 1
    while j < end:
        if toks[j].text not in OPEN:
            fail(toks[j], f"macro_rules! {name}: matcher expected, found `{toks[j].text}`")
        m_end = match_close(toks, j)
        if toks[m_end + 1].text != "=>":
            fail(toks[m_end + 1], f"macro_rules! {name}: `=>` expected")
        k = m_end + 2
        if toks[k].text not in OPEN:
            fail(toks[k], f"macro_rules! {name}: transcriber expected")
        t_end = match_close(toks, k)
        arms.append((toks[j + 1:m_end], toks[k + 1:t_end], toks[j].line))
        j = t_end + 1
        if j < end and toks[j].text == ";":
            j += 1
    return arms


def unwrap_block(ts):
    """`{ ... }` as the only content -> the inner tokens (the crate writes `=> {{ ... }}`)."""
    while ts and ts[0].text == "{" and match_close(ts, 0) == len(ts) - 1:
        ts = ts[1:-1]
    return ts


def frag(ts, line):
    """`$name:spec` -> (name, spec)."""
    if len(ts) != 4 or ts[0].text != "$" or ts[2].text != ":":
        raise ExtractError(f"idt.rs:{line}: macro fragment `$name:spec` expected, found `{join(ts)}`")
    return ts[1].text, ts[3].text


def strip_crate_path(ts):
    """`$crate::structures::idt::X` / `::core::ops::X` / `X` -> `X` (+ generic arguments as written)."""
    s = join(ts)
    s = re.sub(r"^\$crate::structures::idt::", "", s)
    return s


def parse_entry_arm(matcher, body, line):
    parts = split_top(matcher)
    arm = {"line": line, "bits": [], "catch_all": False, "empty": False, "target": "", "target_index": "",
           "has_err": False, "err_type": "", "diverging": False, "index_arg": "", "err_arg": "",
           "panics_after": False, "idx_frag": ""}
    if len(parts) < 3:
        raise ExtractError(f"idt.rs:{line}: set_general_handler_entry!: at least three fragments expected")
    n_idt, s_idt = frag(parts[0], line)
    n_h, s_h = frag(parts[1], line)
    if (n_idt, s_idt, n_h, s_h) != ("idt", "expr", "handler", "ident"):
        raise ExtractError(f"idt.rs:{line}: set_general_handler_entry!: `$idt:expr, $handler:ident` expected")
    third = parts[2]
    if len(parts) == 3:
        # `$idx:ident $(, $_bits:tt)*`
        if len(third) < 4:
            raise ExtractError(f"idt.rs:{line}: unparsable third fragment")
        n_idx, s_idx = frag(third[:4], line)
        rest = join(third[4:])
        if not re.fullmatch(r"\$\(,\$[A-Za-z_][A-Za-z0-9_]*:tt\)\*", rest):
            raise ExtractError(f"idt.rs:{line}: catch-all arm: `$(, $bits:tt)*` expected, found `{rest}`")
        arm["catch_all"] = True
    elif len(parts) == 11:
        n_idx, s_idx = frag(third, line)
        for p in parts[3:]:
            if len(p) != 1 or p[0].kind != "num" or p[0].text not in ("0", "1"):
                raise ExtractError(f"idt.rs:{line}: literal bit 0/1 expected in the matcher, found `{join(p)}`")
            arm["bits"].append(int(p[0].text))
    else:
        raise ExtractError(f"idt.rs:{line}: set_general_handler_entry!: 8 literal bits or a catch-all expected "
                           f"({len(parts) - 3} found)")
    if n_idx != "idx" or s_idx not in ("expr", "ident"):
        raise ExtractError(f"idt.rs:{line}: `$idx:ident` / `$idx:expr` expected, found `${n_idx}:{s_idx}`")
    arm["idx_frag"] = s_idx

    ts = unwrap_block(body)
    if not ts:
        arm["empty"] = True
        return arm
    # statement 1: extern "x86-interrupt" fn <name>(<params>) [-> !] { <body> }
    if not (ts[0].text == "extern" and ts[1].kind == "str" and ts[1].text == "x86-interrupt"
            and ts[2].text == "fn" and ts[3].kind == "id" and ts[4].text == "("):
        fail(ts[0], "stub `extern \"x86-interrupt\" fn <name>(` expected")
    fname = ts[3].text
    p_end = match_close(ts, 4)
    params = [p for p in split_top(ts[5:p_end]) if p]
    if not params or len(params[0]) < 3 or params[0][0].kind != "id" or \
            join(params[0][1:]) != ":$crate::structures::idt::InterruptStackFrame":
        fail(ts[4], "first stub parameter `<name>: $crate::structures::idt::InterruptStackFrame` expected")
    pframe, perr = params[0][0].text, None
    if len(params) == 2:
        if len(params[1]) < 3 or params[1][0].kind != "id" or params[1][1].text != ":":
            fail(params[1][0], "second stub parameter `<name>: <type>` expected")
        perr = params[1][0].text
        arm["has_err"] = True
        arm["err_type"] = strip_crate_path(params[1][2:])
        if arm["err_type"] not in ("u64", "PageFaultErrorCode"):
            fail(params[1][0], f"unknown error-code parameter type `{arm['err_type']}`")
    elif len(params) != 1:
        fail(ts[4], f"stub with {len(params)} parameters")
    k = p_end + 1
    if ts[k].text == "->":
        if ts[k + 1].text != "!":
            fail(ts[k], "stub return type other than `!`")
        arm["diverging"] = True
        k += 2
    if ts[k].text != "{":
        fail(ts[k], "stub body expected")
    b_end = match_close(ts, k)
    stmts = [s for s in split_top(ts[k + 1:b_end], ";") if s]
    if not stmts:
        fail(ts[k], "empty stub body")
    call = stmts[0]
    if not (len(call) >= 4 and call[0].text == "$" and call[1].text == "handler" and call[2].text == "("
            and match_close(call, 2) == len(call) - 1):
        fail(call[0], "stub body must start with the call `$handler(..)`")
    args = split_top(call[3:-1])
    if len(args) != 3:
        fail(call[0], f"`$handler` called with {len(args)} arguments")
    if join(args[0]) != pframe:
        fail(call[0], f"first argument of `$handler` must be the stub's frame parameter `{pframe}`, found `{join(args[0])}`")
    a1 = join(args[1])
    m = re.fullmatch(r"(\$idx|IDX)(\.into\(\))?", a1)
    if not m:
        fail(call[0], f"index argument `$idx.into()` / `IDX.into()` expected, found `{a1}`")
    arm["index_arg"] = m.group(1)
    a2 = join(args[2])
    forms = {"None": "None"}
    if perr is not None:
        forms[f"Some({perr})"] = "Some(error_code)"
        forms[f"Some({perr}.bits())"] = "Some(error_code.bits())"
    if a2 not in forms:
        fail(call[0], f"unknown error-code argument `{a2}`")
    arm["err_arg"] = forms[a2]
    if arm["err_arg"] == "Some(error_code.bits())" and arm["err_type"] != "PageFaultErrorCode":
        fail(call[0], "`.bits()` on an error code that is not a PageFaultErrorCode")
    if arm["err_arg"] == "Some(error_code)" and arm["err_type"] != "u64":
        fail(call[0], "a typed error code handed on without `.bits()`")
    for extra in stmts[1:]:
        if len(extra) >= 3 and extra[0].text == "panic" and extra[1].text == "!":
            arm["panics_after"] = True
        else:
            fail(extra[0], f"unexpected statement in a stub body: `{join(extra)}`")
    # statement 2: $idt.<field>.set_handler_fn(handler);  /  $idt[<expr>].set_handler_fn(handler);
    rest = ts[b_end + 1:]
    rest_s = join(rest)
    m = re.fullmatch(r"\$idt\.([A-Za-z_][A-Za-z0-9_]*)\.set_handler_fn\(%s\);?" % re.escape(fname), rest_s)
    if m:
        arm["target"] = m.group(1)
    else:
        m = re.fullmatch(r"\$idt\[(\$idx|IDX)\]\.set_handler_fn\(%s\);?" % re.escape(fname), rest_s)
        if not m:
            fail(rest[0] if rest else ts[b_end], f"installation statement not recognised: `{rest_s}`")
        arm["target"] = "[]"
        arm["target_index"] = m.group(1)
    return arm


def parse_recursive(toks):
    arms = macro_arms(toks, "set_general_handler_recursive_bits")
    if len(arms) != 2:
        raise ExtractError(f"idt.rs: set_general_handler_recursive_bits!: two arms expected, found {len(arms)}")
    out = {}
    # the arm with eight `$bitN:tt` fragments
    which8 = None
    for pos, (matcher, body, line) in enumerate(arms):
        parts = split_top(matcher)
        if len(parts) == 11:
            which8 = pos
            heads = [frag(p, line) for p in parts[:3]]
            if heads != [("idt", "expr"), ("handler", "ident"), ("range", "expr")]:
                raise ExtractError(f"idt.rs:{line}: `$idt:expr, $handler:ident, $range:expr` expected")
            names = []
            for p in parts[3:]:
                nm, sp = frag(p, line)
                if sp != "tt" or not re.fullmatch(r"bit[0-7]", nm):
                    raise ExtractError(f"idt.rs:{line}: `$bitN:tt` expected, found `${nm}:{sp}`")
                names.append(int(nm[3:]))
            out["matcher_bits"] = names
            ts = unwrap_block(body)
            # const IDX: u8 = <formula>;
            if texts(ts[:5]) != ["const", "IDX", ":", "u8", "="]:
                fail(ts[0], "`const IDX: u8 =` expected")
            semi = next(i for i, t in enumerate(ts) if t.text == ";")
            terms = []
            for term in split_top(ts[5:semi], "|"):
                s = join(term)
                m = re.fullmatch(r"\$bit([0-7])", s)
                if m:
                    terms.append((int(m.group(1)), 0))
                    continue
                m = re.fullmatch(r"\(\$bit([0-7])<<([0-9]+)\)", s)
                if not m:
                    fail(term[0], f"IDX term not recognised: `{s}`")
                terms.append((int(m.group(1)), int(m.group(2))))
            out["idx_terms"] = terms
            out["idx_type"] = "u8"
            rest = ts[semi + 1:]
            # optional attributes
            while rest and rest[0].text == "#":
                rest = rest[match_close(rest, 1) + 1:]
            if not rest or rest[0].text != "if":
                fail(ts[semi], "`if $range.contains(&IDX)` expected")
            brace = next(i for i, t in enumerate(rest) if t.text == "{")
            cond = join(rest[1:brace])
            if cond != "$range.contains(&IDX)":
                fail(rest[0], f"guard `$range.contains(&IDX)` expected, found `{cond}`")
            out["guard"] = cond
            b_end = match_close(rest, brace)
            if b_end != len(rest) - 1:
                fail(rest[b_end], "unexpected tokens after the guarded block (an `else`?)")
            inner = rest[brace + 1:b_end]
            if texts(inner[:5]) != ["$", "crate", "::", "set_general_handler_entry", "!"] or inner[5].text != "(":
                fail(inner[0], "`$crate::set_general_handler_entry!(` expected inside the guard")
            c_end = match_close(inner, 5)
            if join(inner[c_end + 1:]) not in ("", ";"):
                fail(inner[c_end], "unexpected tokens after the entry macro call")
            cargs = [join(a) for a in split_top(inner[6:c_end])]
            if cargs[:3] != ["$idt", "$handler", "IDX"]:
                fail(inner[0], f"entry macro called with `{cargs[:3]}`")
            order = []
            for a in cargs[3:]:
                m = re.fullmatch(r"\$bit([0-7])", a)
                if not m:
                    fail(inner[0], f"entry macro bit argument `{a}`")
                order.append(int(m.group(1)))
            out["entry_bits"] = order
        else:
            if len(parts) != 3:
                raise ExtractError(f"idt.rs:{line}: recursive arm: three fragments expected")
            if join(parts[2]) != "$range:expr$(,$bits:tt)*":
                raise ExtractError(f"idt.rs:{line}: recursive arm: `$range:expr $(, $bits:tt)*` expected, "
                                   f"found `{join(parts[2])}`")
            stmts = [s for s in split_top(unwrap_block(body), ";") if s]
            appended = []
            for s in stmts:
                txt = join(s)
                m = re.fullmatch(r"\$crate::set_general_handler_recursive_bits!\(\$idt,\$handler,"
                                 r"\$range\$\(,\$bits\)\*,([01])\)", txt)
                if not m:
                    fail(s[0], f"recursive call not recognised: `{txt}`")
                appended.append(int(m.group(1)))
            out["appended"] = appended
            out["recursive_arm_pos"] = pos
    if which8 is None:
        raise ExtractError("idt.rs: set_general_handler_recursive_bits!: no arm with eight `$bitN:tt` fragments")
    out["eight_arm_pos"] = which8
    return out


def parse_range_expr(ts):
    """`0..=255`, `$idx..=$idx`, `$idx..$idx` -> (op, lo, hi) with lo/hi a literal value or `$name`."""
    for i, t in enumerate(ts):
        if t.kind == "p" and t.text in ("..=", ".."):
            lo, hi = join(ts[:i]), join(ts[i + 1:])

            def side(s, tk):
                if s == "":
                    return ""
                if re.fullmatch(r"\$[A-Za-z_]+", s):
                    return s
                if re.fullmatch(r"[0-9][0-9_]*(u8)?", s):
                    return str(int(s.replace("u8", "").replace("_", "")))
                fail(tk, f"range bound not recognised: `{s}`")
            return t.text, side(lo, t), side(hi, t)
    fail(ts[0], f"range expression expected, found `{join(ts)}`")


def parse_top(toks):
    arms = macro_arms(toks, "set_general_handler")
    if len(arms) != 3:
        raise ExtractError(f"idt.rs: set_general_handler!: three arms expected, found {len(arms)}")
    out = {}
    for matcher, body, line in arms:
        parts = split_top(matcher)
        heads = [frag(p, line) for p in parts]
        if heads[:2] != [("idt", "expr"), ("handler", "ident")]:
            raise ExtractError(f"idt.rs:{line}: `$idt:expr, $handler:ident` expected")
        ts = unwrap_block(body)
        if len(heads) == 2 or (len(heads) == 3 and heads[2][1] == "literal"):
            key = "whole" if len(heads) == 2 else "single"
            if texts(ts[:5]) != ["$", "crate", "::", "set_general_handler", "!"] or ts[5].text != "(":
                fail(ts[0], "forwarding call `$crate::set_general_handler!(` expected")
            c_end = match_close(ts, 5)
            if join(ts[c_end + 1:]) not in ("", ";"):
                fail(ts[c_end], "unexpected tokens after the forwarding call")
            cargs = split_top(ts[6:c_end])
            if len(cargs) != 3 or join(cargs[0]) != "$idt" or join(cargs[1]) != "$handler":
                fail(ts[0], "forwarding call must pass `$idt, $handler, <range>`")
            out[key] = parse_range_expr(cargs[2])
            if key == "single":
                out["single_frag"] = heads[2][0]
        elif len(heads) == 3 and heads[2] == ("range", "expr"):
            s = join(ts)
            m = re.search(r"constGENERAL_HANDLER:\$crate::structures::idt::([A-Za-z_]+)=\$handler;", s)
            if not m:
                fail(ts[0], "`const GENERAL_HANDLER: $crate::structures::idt::<T> = $handler;` expected")
            out["handler_const_type"] = m.group(1)
            m = re.search(r"fnset_general_handler\(idt:&mut\$crate::structures::idt::InterruptDescriptorTable,"
                          r"range:impl::core::ops::RangeBounds<([a-z0-9]+)>,?\)"
                          r"\{\$crate::set_general_handler_recursive_bits!\(idt,GENERAL_HANDLER,range\);\}"
                          r"set_general_handler\(\$idt,\$range\);", s)
            if not m:
                fail(ts[0], "range form: inner `fn set_general_handler(idt, range: impl RangeBounds<T>)` that starts "
                            "`set_general_handler_recursive_bits!(idt, GENERAL_HANDLER, range)` and the call "
                            "`set_general_handler($idt, $range)` expected")
            out["bound_type"] = m.group(1)
            out["range"] = "$range"
        else:
            raise ExtractError(f"idt.rs:{line}: set_general_handler!: unknown form `{join(matcher)}`")
    for k in ("whole", "single", "range", "bound_type", "handler_const_type"):
        if k not in out:
            raise ExtractError(f"idt.rs: set_general_handler!: form `{k}` not found")
    return out


# ----------------------------------------------------------------------------- structs, aliases, IndexMut

def struct_fields(toks, name):
    """Named-field struct: ([(field, type tokens, is_pub, line)], attributes)."""
    hits = [i for i in find_all(toks, ["struct", name]) if toks[i + 2].text in ("{", "<")]
    if len(hits) != 1:
        raise ExtractError(f"idt.rs: expected exactly one `struct {name} {{`, found {len(hits)}")
    i = hits[0]
    attrs = attrs_before(toks, i)
    j = i + 2
    while toks[j].text != "{":
        j += 1
    end = match_close(toks, j)
    fields = []
    for part in split_top(toks[j + 1:end]):
        # drop attributes
        while part and part[0].text == "#":
            part = part[match_close(part, 1) + 1:]
        if not part:
            continue
        is_pub = part[0].text == "pub"
        if is_pub:
            part = part[1:]
            if part and part[0].text == "(":
                part = part[match_close(part, 0) + 1:]
        if len(part) < 3 or part[0].kind != "id" or part[1].text != ":":
            fail(part[0], f"struct {name}: field `name: type` expected, found `{join(part)}`")
        fields.append((part[0].text, part[2:], is_pub, part[0].line))
    return fields, attrs


def idt_fields(toks):
    fields, attrs = struct_fields(toks, "InterruptDescriptorTable")
    out = []
    for name, ty, is_pub, line in fields:
        s = join(ty)
        m = re.fullmatch(r"Entry<([A-Za-z_]+)>", s)
        if m:
            out.append((name, m.group(1), 1, is_pub, False))
            continue
        if ty[0].text == "[" and match_close(ty, 0) == len(ty) - 1:
            inner = split_top(ty[1:-1], ";")
            m = re.fullmatch(r"Entry<([A-Za-z_]+)>", join(inner[0])) if len(inner) == 2 else None
            if m:
                out.append((name, m.group(1), eval_arith(inner[1]), is_pub, True))
                continue
        raise ExtractError(f"idt.rs:{line}: InterruptDescriptorTable.{name}: type `{s}` not recognised")
    return out, attrs


def handler_aliases(toks):
    """pub type X = extern "x86-interrupt" fn(InterruptStackFrame[, error_code: T]) [-> !];"""
    out = {}
    for i in find_all(toks, ["pub", "type"]):
        name = toks[i + 2].text
        if toks[i + 3].text != "=":
            continue
        semi = next(j for j in range(i, len(toks)) if toks[j].text == ";")
        rhs = toks[i + 4:semi]
        if not (len(rhs) > 3 and rhs[0].text == "extern" and rhs[1].kind == "str" and rhs[2].text == "fn"):
            continue
        if rhs[1].text != "x86-interrupt":
            fail(rhs[1], f"type {name}: ABI `{rhs[1].text}`")
        p_end = match_close(rhs, 3)
        params = [join(p) for p in split_top(rhs[4:p_end]) if p]
        if not params or params[0] != "InterruptStackFrame":
            fail(rhs[0], f"type {name}: first parameter must be InterruptStackFrame")
        has_err, err_type = False, ""
        if len(params) == 2:
            m = re.fullmatch(r"error_code:([A-Za-z0-9_]+)", params[1])
            if not m:
                fail(rhs[0], f"type {name}: second parameter `{params[1]}`")
            has_err, err_type = True, m.group(1)
        elif len(params) != 1:
            fail(rhs[0], f"type {name}: {len(params)} parameters")
        tail = join(rhs[p_end + 1:])
        if tail not in ("", "->!"):
            fail(rhs[0], f"type {name}: return type `{tail}`")
        if name in out and out[name] != (has_err, err_type, tail == "->!"):
            fail(rhs[0], f"type {name}: two different definitions")
        out[name] = (has_err, err_type, tail == "->!")
    return out


def general_handler_type(toks):
    i = find_seq(toks, ["pub", "type", "GeneralHandlerFunc", "="])
    if i < 0:
        raise ExtractError("idt.rs: `pub type GeneralHandlerFunc =` not found")
    semi = next(j for j in range(i, len(toks)) if toks[j].text == ";")
    rhs = toks[i + 4:semi]
    if rhs[0].text != "fn" or rhs[1].text != "(" or match_close(rhs, 1) != len(rhs) - 1:
        fail(rhs[0], f"GeneralHandlerFunc: `fn(..)` without return type expected, found `{join(rhs)}`")
    params = []
    for p in split_top(rhs[2:-1]):
        s = join(p)
        s = re.sub(r"^[a-z_]+:", "", s)
        params.append(s)
    return params


def index_mut_arms(toks):
    i = find_seq(toks, ["impl", "IndexMut", "<", "u8", ">", "for", "InterruptDescriptorTable"])
    if i < 0:
        raise ExtractError("idt.rs: `impl IndexMut<u8> for InterruptDescriptorTable` not found")
    j = find_seq(toks, ["match", "index", "{"], i)
    if j < 0:
        raise ExtractError("idt.rs: IndexMut<u8>: `match index {` not found")
    k = j + 2
    end = match_close(toks, k)
    arms = []
    p = k + 1
    while p < end:
        q = p
        depth = 0
        while not (toks[q].text == "=>" and depth == 0):
            if toks[q].text in OPEN:
                depth += 1
            elif toks[q].text in CLOSE:
                depth -= 1
            q += 1
        pat = toks[p:q]
        b = q + 1
        if toks[b].text == "{":
            b_end = match_close(toks, b)
            body = toks[b + 1:b_end]
            p = b_end + 1
        else:
            b_end = b
            depth = 0
            while b_end < end and not (toks[b_end].text == "," and depth == 0):
                if toks[b_end].text in OPEN:
                    depth += 1
                elif toks[b_end].text in CLOSE:
                    depth -= 1
                b_end += 1
            body = toks[b:b_end]
            p = b_end
        if p < end and toks[p].text == ",":
            p += 1
        alts = []
        for alt in split_top(pat, "|"):
            s = join(alt)
            m = re.fullmatch(r"(?:[a-z_]+@)?([0-9]+)(?:\.\.=([0-9]+))?", s)
            if not m:
                fail(alt[0], f"IndexMut<u8>: pattern `{s}` not recognised")
            lo = int(m.group(1))
            alts.append((lo, int(m.group(2)) if m.group(2) else lo))
        bs = join(body)
        m = re.fullmatch(r"&mutself\.([a-z_0-9]+)", bs)
        if m:
            arms.append((alts, m.group(1), 0, False, False))
            continue
        m = re.fullmatch(r"&mutself\.([a-z_0-9]+)\[usize::from\([a-z_]+\)-([0-9]+)\]", bs)
        if m:
            arms.append((alts, m.group(1), int(m.group(2)), True, False))
            continue
        if re.fullmatch(r"panic!\(.*\);?", bs):
            arms.append((alts, "", 0, False, True))
            continue
        fail(pat[0], f"IndexMut<u8>: arm body `{bs}` not recognised")
    return arms


TYPE_LAYOUT = {"VirtAddr": (8, 8), "RFlags": (8, 8), "SegmentSelector": (2, 2), "u64": (8, 8), "u16": (2, 2)}


def frame_struct(toks):
    fields, attrs = struct_fields(toks, "InterruptStackFrameValue")
    out = []
    for name, ty, is_pub, line in fields:
        s = join(ty)
        if s in TYPE_LAYOUT:
            size, align = TYPE_LAYOUT[s]
        else:
            m = re.fullmatch(r"\[u8;([0-9]+)\]", s)
            if not m:
                raise ExtractError(f"idt.rs:{line}: InterruptStackFrameValue.{name}: type `{s}` has no known layout")
            size, align = int(m.group(1)), 1
        out.append((name, s, size, align, is_pub))
    repr_c = any(a.replace(" ", "") == "repr(C)" for a in attrs)
    # wrapper
    hits = find_all(toks, ["struct", "InterruptStackFrame", "("])
    if len(hits) != 1:
        raise ExtractError("idt.rs: `struct InterruptStackFrame(` not found")
    i = hits[0]
    end = match_close(toks, i + 2)
    inner = join(toks[i + 3:end])
    w_attrs = attrs_before(toks, i)
    transparent = any(a.replace(" ", "") == "repr(transparent)" for a in w_attrs)
    return out, repr_c, inner, transparent


def iretq_asm(toks):
    hits = find_all(toks, ["unsafe", "fn", "iretq", "("])
    if len(hits) != 1:
        raise ExtractError(f"idt.rs: expected exactly one `unsafe fn iretq(`, found {len(hits)}")
    i = hits[0]
    sig_end = next(j for j in range(i, len(toks)) if toks[j].text == "{")
    sig = join(toks[i:sig_end])
    if sig != "unsafefniretq(&self)->!":
        fail(toks[i], f"iretq signature `{sig}`")
    end = match_close(toks, sig_end)
    body = toks[sig_end + 1:end]
    a = find_seq(body, ["asm", "!", "("])
    if a < 0 or find_seq(body, ["asm", "!", "("], a + 1) >= 0:
        fail(toks[i], "iretq: exactly one asm! block expected")
    a_end = match_close(body, a + 2)
    template, operands, options = [], [], ""
    for part in split_top(body[a + 3:a_end]):
        if not part:
            continue
        if part[0].kind == "str":
            if len(part) != 1:
                fail(part[0], "iretq asm: string concatenation not supported")
            if operands:
                fail(part[0], "iretq asm: template line after an operand")
            template.append(part[0].text.strip())
        elif part[0].text == "options":
            options = join(part)
        else:
            s = join(part)
            m = re.fullmatch(r"([a-z_]+)=in\(reg\)self\.([a-z_0-9]+)\.(as_u64\(\)|bits\(\)|0)", s)
            if not m:
                fail(part[0], f"iretq asm: operand `{s}` not recognised")
            operands.append((m.group(1), m.group(2), m.group(3)))
    if options != "options(noreturn)":
        fail(toks[i], f"iretq asm: options `{options}`")
    steps = []
    for line in template:
        m = re.fullmatch(r"push \{([a-z_]+)(?::r)?\}", line)
        if m:
            steps.append(("push", m.group(1)))
        elif line == "iretq":
            steps.append(("iretq", ""))
        else:
            fail(toks[i], f"iretq asm: template line `{line}` not recognised")
    names = [o[0] for o in operands]
    for kind, nm in steps:
        if kind == "push" and nm not in names:
            fail(toks[i], f"iretq asm: `{{{nm}}}` has no operand")
    return steps, operands


# ----------------------------------------------------------------------------- extraction

def extract(repo):
    path = os.path.join(repo, SRC)
    toks = tokenize(open(path).read())
    ex = {}
    ex["arms"] = [parse_entry_arm(m, b, ln) for m, b, ln in macro_arms(toks, "set_general_handler_entry")]
    if not ex["arms"]:
        raise ExtractError("idt.rs: set_general_handler_entry! has no arms")
    if sum(1 for a in ex["arms"] if a["catch_all"]) != 1:
        raise ExtractError("idt.rs: set_general_handler_entry!: exactly one catch-all arm expected")
    ex["rec"] = parse_recursive(toks)
    ex["top"] = parse_top(toks)
    ex["fields"], ex["idt_attrs"] = idt_fields(toks)
    ex["aliases"] = handler_aliases(toks)
    for name, ty, _n, _p, _a in ex["fields"]:
        if ty not in ex["aliases"]:
            raise ExtractError(f"idt.rs: field {name}: handler type `{ty}` has no `pub type` definition")
    ex["general"] = general_handler_type(toks)
    ex["index_mut"] = index_mut_arms(toks)
    ex["frame"], ex["frame_repr_c"], ex["wrapper_inner"], ex["wrapper_transparent"] = frame_struct(toks)
    ex["iretq_steps"], ex["iretq_operands"] = iretq_asm(toks)
    return ex


# ----------------------------------------------------------------------------- rendering

def lb(b):
    return "true" if b else "false"


def lstr(s):
    return '"' + s.replace("\\", "\\\\").replace('"', '\\"') + '"'


def llist(items):
    return "[" + ", ".join(items) + "]"


def render_lean(ex):
    o = []
    o.append("/-\nGENERATED by translator/gen_general_handler.py from src/structures/idt.rs -- do not edit.\n"
             "Rewritten on every `run.py` invocation. What each table means: header of gen_general_handler.py.\n"
             "Only core is imported: this file is linked into the `driver` executable.\n-/\n"
             "namespace X86.Generated.GH\n")
    o.append("/-- One arm of `macro_rules! set_general_handler_entry` (source order = matching order). -/\n"
             "structure Arm where\n"
             "  line : Nat\n"
             "  /-- the 8 literal bits of the matcher, bit 7 first; `[]` for the catch-all arm -/\n"
             "  bits : List Nat\n"
             "  catchAll : Bool\n"
             "  /-- `=> {}`: nothing is installed -/\n"
             "  empty : Bool\n"
             "  /-- IDT field assigned (`$idt.<target>`), or `\"[]\"` for `$idt[<targetIndex>]` -/\n"
             "  target : String\n"
             "  targetIndex : String\n"
             "  /-- the stub has an `error_code` parameter, of this type -/\n"
             "  hasErrParam : Bool\n"
             "  errParamType : String\n"
             "  /-- the stub is declared `-> !` -/\n"
             "  diverging : Bool\n"
             "  /-- expression handed to the general handler as `index` (before `.into()`) -/\n"
             "  indexArg : String\n"
             "  /-- expression handed to the general handler as `error_code` -/\n"
             "  errArg : String\n"
             "  /-- a `panic!` follows the call of the general handler -/\n"
             "  panicsAfter : Bool\n"
             "  deriving Repr, DecidableEq\n")
    o.append("def arms : List Arm := [")
    rows = []
    for a in ex["arms"]:
        rows.append("  { line := %d, bits := %s, catchAll := %s, empty := %s, target := %s, targetIndex := %s,\n"
                    "    hasErrParam := %s, errParamType := %s, diverging := %s, indexArg := %s, errArg := %s, "
                    "panicsAfter := %s }" % (
                        a["line"], llist(str(b) for b in a["bits"]), lb(a["catch_all"]), lb(a["empty"]),
                        lstr(a["target"]), lstr(a["target_index"]), lb(a["has_err"]), lstr(a["err_type"]),
                        lb(a["diverging"]), lstr(a["index_arg"]), lstr(a["err_arg"]), lb(a["panics_after"])))
    o.append(",\n".join(rows) + "]\n")
    r = ex["rec"]
    o.append("/-! `set_general_handler_recursive_bits!` -/\n")
    o.append("/-- position (0 = first) of the arm that takes exactly eight bits; it must precede the recursive arm -/")
    o.append(f"def recEightArmPos : Nat := {r['eight_arm_pos']}")
    o.append(f"def recRecursiveArmPos : Nat := {r['recursive_arm_pos']}")
    o.append("/-- `$bitN` fragments of the eight-bit arm in matcher order (first = oldest appended bit) -/")
    o.append(f"def recMatcherBits : List Nat := {llist(str(b) for b in r['matcher_bits'])}")
    o.append("/-- `const IDX: u8 = ...`: OR of `$bit<n> << <shift>` terms, as (n, shift) -/")
    o.append(f"def recIdxTerms : List (Nat × Nat) := {llist(f'({n}, {s})' for n, s in r['idx_terms'])}")
    o.append(f"def recIdxType : String := {lstr(r['idx_type'])}")
    o.append(f"def recGuard : String := {lstr(r['guard'])}")
    o.append("/-- order in which the `$bitN` are handed to `set_general_handler_entry!` after `IDX` -/")
    o.append(f"def recEntryBits : List Nat := {llist(str(b) for b in r['entry_bits'])}")
    o.append("/-- literals the recursive arm appends behind the bits collected so far, in call order -/")
    o.append(f"def recAppended : List Nat := {llist(str(b) for b in r['appended'])}\n")
    t = ex["top"]
    o.append("/-! `set_general_handler!`: range expression each form forwards, as (operator, lower, upper);\n"
             "a bound is `(0, n)` = the literal n, `(1, 0)` = the form's own macro fragment `$idx`, `(2, 0)` = absent. -/\n")
    def lbound(b):
        return "(2, 0)" if b == "" else "(1, 0)" if b.startswith("$") else f"(0, {b})"
    for key, nm in (("whole", "formWhole"), ("single", "formSingle")):
        op, lo, hi = t[key]
        for b in (lo, hi):
            if b.startswith("$") and (key != "single" or b != "$" + t["single_frag"]):
                raise ExtractError(f"idt.rs: set_general_handler!: form `{key}` uses the unbound fragment `{b}`")
        if op == "..=" and hi == "":
            raise ExtractError(f"idt.rs: set_general_handler!: form `{key}`: `..=` without upper bound")
        o.append(f"def {nm} : String × (Nat × Nat) × (Nat × Nat) := ({lstr(op)}, {lbound(lo)}, {lbound(hi)})")
    o.append(f"def formSingleFragment : String := {lstr('$' + t['single_frag'])}")
    o.append(f"def formRange : String := {lstr(t['range'])}")
    o.append(f"def rangeBoundType : String := {lstr(t['bound_type'])}")
    o.append(f"def handlerConstType : String := {lstr(t['handler_const_type'])}")
    o.append(f"def generalHandlerParams : List String := {llist(lstr(p) for p in ex['general'])}\n")
    o.append("/-! `struct InterruptDescriptorTable`: (field, handler type, number of entries, pub) in declaration order -/\n")
    o.append("def idtFields : List (String × String × Nat × Bool) := [")
    o.append(",\n".join(f"  ({lstr(n)}, {lstr(ty)}, {cnt}, {lb(p)})" for n, ty, cnt, p, _a in ex["fields"]) + "]\n")
    o.append(f"def idtAttrs : List String := {llist(lstr(a) for a in ex['idt_attrs'])}\n")
    o.append("/-- handler type aliases: (name, has error-code parameter, its type, `-> !`) -/")
    o.append("def handlerTypes : List (String × Bool × String × Bool) := [")
    o.append(",\n".join(f"  ({lstr(n)}, {lb(v[0])}, {lstr(v[1])}, {lb(v[2])})" for n, v in sorted(ex["aliases"].items())) + "]\n")
    o.append("/-- `impl IndexMut<u8>`: (pattern alternatives as inclusive ranges, field, subtracted offset for an array\n"
             "field, is array access, panics) in arm order -/")
    o.append("def indexMutArms : List (List (Nat × Nat) × String × Nat × Bool × Bool) := [")
    o.append(",\n".join("  (%s, %s, %d, %s, %s)" % (llist(f"({a}, {b})" for a, b in alts), lstr(f), k, lb(arr), lb(pn))
                        for alts, f, k, arr, pn in ex["index_mut"]) + "]\n")
    o.append("/-! `struct InterruptStackFrameValue`: (field, type, size, alignment, pub) in declaration order -/\n")
    o.append("def frameFields : List (String × String × Nat × Nat × Bool) := [")
    o.append(",\n".join(f"  ({lstr(n)}, {lstr(ty)}, {sz}, {al}, {lb(p)})" for n, ty, sz, al, p in ex["frame"]) + "]\n")
    o.append(f"def frameReprC : Bool := {lb(ex['frame_repr_c'])}")
    o.append(f"def frameWrapperInner : String := {lstr(ex['wrapper_inner'])}")
    o.append(f"def frameWrapperTransparent : Bool := {lb(ex['wrapper_transparent'])}\n")
    o.append("/-- `InterruptStackFrameValue::iretq`: the asm template as (mnemonic, operand name) -/")
    o.append(f"def iretqSteps : List (String × String) := {llist(f'({lstr(k)}, {lstr(n)})' for k, n in ex['iretq_steps'])}")
    o.append("/-- operand name -> (field of `self`, accessor) -/")
    o.append("def iretqOperands : List (String × String × String) := "
             + llist(f"({lstr(a)}, {lstr(b)}, {lstr(c)})" for a, b, c in ex["iretq_operands"]))
    o.append("\nend X86.Generated.GH\n")
    return "\n".join(o)


def render_rust(ex):
    o = []
    o.append("// GENERATED by translator/gen_general_handler.py -- do not edit. Rewritten on every run.py invocation.\n"
             "// Layout facts of the IDT and of the interrupt stack frame read from the COMPILED crate; the harness\n"
             "// prints them and the driver compares them with lean/X86Model/Generated/GeneralHandler.lean.\n"
             "#![allow(unused_imports, clippy::all)]\n"
             "use super::c13::{kind_of, kind_of_array};\n"
             "use core::mem::{size_of, size_of_val};\n"
             "use core::ptr::addr_of;\n"
             "use x86_64::structures::idt::{InterruptDescriptorTable, InterruptStackFrame, InterruptStackFrameValue};\n")
    o.append("/// Public fields of the table: (name, byte offset, size in bytes, handler kind of the field's type).")
    o.append("pub fn idt_pub_fields(idt: &InterruptDescriptorTable) -> Vec<(&'static str, usize, usize, u8)> {")
    o.append("    let base = idt as *const InterruptDescriptorTable as usize;")
    o.append("    vec![")
    for n, _ty, _cnt, p, is_arr in ex["fields"]:
        if p:
            k = "kind_of_array" if is_arr else "kind_of"
            o.append(f"        (\"{n}\", addr_of!(idt.{n}) as usize - base, size_of_val(&idt.{n}), {k}(&idt.{n})),")
    o.append("    ]\n}\n")
    o.append("/// Names of all fields in declaration order with their visibility (private ones cannot be measured).")
    o.append("pub const IDT_FIELD_NAMES: &[(&str, bool)] = &[")
    for n, _ty, _cnt, p, _a in ex["fields"]:
        o.append(f"    (\"{n}\", {lb(p)}),")
    o.append("];\n")
    o.append("/// Public fields of the frame value: (name, byte offset, size in bytes).")
    o.append("pub fn frame_pub_fields(f: &InterruptStackFrameValue) -> Vec<(&'static str, usize, usize)> {")
    o.append("    let base = f as *const InterruptStackFrameValue as usize;")
    o.append("    vec![")
    for n, _ty, _sz, _al, p in ex["frame"]:
        if p:
            o.append(f"        (\"{n}\", addr_of!(f.{n}) as usize - base, size_of_val(&f.{n})),")
    o.append("    ]\n}\n")
    o.append("pub fn frame_sizes() -> (usize, usize) {\n"
             "    (size_of::<InterruptStackFrameValue>(), size_of::<InterruptStackFrame>())\n}\n")
    return "\n".join(o)


def generate(repo, outdir):
    ex = extract(repo)
    files = []
    lean_path = os.path.join(outdir, "GeneralHandler.lean")
    write_if_changed(lean_path, render_lean(ex))
    files.append(lean_path)
    root = os.path.dirname(os.path.dirname(os.path.abspath(__file__)))
    rust_path = os.path.join(root, "harness", "src", "c13_gen.rs")
    write_if_changed(rust_path, render_rust(ex))
    files.append(rust_path)
    return files


if __name__ == "__main__":
    import json
    ex = extract(sys.argv[1] if len(sys.argv) > 1 else "/repo")
    print(json.dumps(ex, indent=1, default=str))
