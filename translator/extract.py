#!/usr/bin/env python3
"""Translator: re-extract declarative content of /repo's source into Lean (Generated/*.lean).

usage: extract.py <repo> <outdir>
Runs every translator/gen_*.py module (each exposes `generate(repo, outdir) -> list of written files`).
A module that cannot parse what it expects raises; that is reported as a broken tie by run.py.
Files are only rewritten when their content changes (keeps `lake build` incremental).
"""
import glob
import importlib.util
import os
import sys


def write_if_changed(path, content):
    old = open(path).read() if os.path.exists(path) else None
    if old != content:
        os.makedirs(os.path.dirname(path), exist_ok=True)
        open(path, "w").write(content)
        return True
    return False


def main():
    repo, outdir = sys.argv[1], sys.argv[2]
    here = os.path.dirname(os.path.abspath(__file__))
    rc = 0
    for path in sorted(glob.glob(os.path.join(here, "gen_*.py"))):
        name = os.path.basename(path)[:-3]
        spec = importlib.util.spec_from_file_location(name, path)
        mod = importlib.util.module_from_spec(spec)
        try:
            spec.loader.exec_module(mod)
            files = mod.generate(repo, outdir)
            print(f"{name}: {', '.join(os.path.basename(f) for f in files)}")
        except Exception as ex:  # noqa: BLE001
            print(f"{name}: FAILED: {type(ex).__name__}: {ex}")
            rc = 1
    return rc


if __name__ == "__main__":
    sys.path.insert(0, os.path.dirname(os.path.abspath(__file__)))
    sys.exit(main())
