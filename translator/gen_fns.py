#!/usr/bin/env python3
"""Translator: selected pure functions of the crate, Rust source -> Lean definitions (Generated/SrcFns.lean).

The arithmetic core of the address types (C03-C07) is small, loop-free integer code. This module parses the listed
functions with a recursive-descent parser for the Rust subset they use and emits one Lean definition per function
over the fixed-width semantics of `X86Model/Base/Rust.lean` (u64/u16/u8 = `BitVec`, wrapping shifts, arithmetic `>>`
on `i64`, `checked_add/sub`, profile-dependent `+ - *`, `bit_field::{get_bits,set_bits}`, panics = `R.panic`).
The hand-written models are then *proved equal* to these definitions (`Properties/SrcTie.lean`): for these
functions the tie between model and source is a theorem re-checked on every run, not a sample.

Subset: `let [mut] x = e;`, `x op= e;`, `x.set_bits(a.., v);`, `assert!(c, ..)`, `if c {..} [else {..}]`,
`if let Some(x) = e {..} else {..}`, `match e { pat => .. }` (integer literals, `_`, `Ok(v)/Err(_)/Some(v)/None`),
`return e;`, `e?` (in `let` initialisers), `panic!(..)`, `unsafe {..}`, literals, paths, `.0`, casts, unary `!`,
binary `& | ^ << >> + - * % == != < <= > >=`, and calls of other listed functions. Anything else raises
(reported as a broken tie by run.py) - a rewrite outside the subset needs the translator extended, it is never
silently skipped.
"""
import os
import re
import sys

sys.path.insert(0, os.path.dirname(os.path.abspath(__file__)))
from extract import write_if_changed  # noqa: E402

# (file, impl type or None, fn name)
TARGETS = [
    ("src/addr.rs", None, "align_down"),
    ("src/addr.rs", None, "align_up"),
    ("src/addr.rs", "VirtAddr", "new_truncate"),
    ("src/addr.rs", "VirtAddr", "try_new"),
    ("src/addr.rs", "VirtAddr", "new"),
    ("src/addr.rs", "VirtAddr", "align_down_u64"),
    ("src/addr.rs", "VirtAddr", "is_aligned_u64"),
    ("src/addr.rs", "VirtAddr", "page_offset"),
    ("src/addr.rs", "VirtAddr", "p1_index"),
    ("src/addr.rs", "VirtAddr", "p2_index"),
    ("src/addr.rs", "VirtAddr", "p3_index"),
    ("src/addr.rs", "VirtAddr", "p4_index"),
    ("src/addr.rs", "VirtAddr", "page_table_index"),
    ("src/addr.rs", "VirtAddr", "steps_between_u64"),
    ("src/addr.rs", "VirtAddr", "forward_checked_u64"),
    ("src/addr.rs", "VirtAddr", "backward_checked_u64"),
    ("src/addr.rs", "PhysAddr", "new_truncate"),
    ("src/addr.rs", "PhysAddr", "try_new"),
    ("src/addr.rs", "PhysAddr", "new"),
    ("src/structures/paging/page_table.rs", "PageTableIndex", "new"),
    ("src/structures/paging/page_table.rs", "PageTableIndex", "new_truncate"),
    ("src/structures/paging/page_table.rs", "PageOffset", "new"),
    ("src/structures/paging/page_table.rs", "PageOffset", "new_truncate"),
]

NEWTYPES = {"VirtAddr": "u64", "PhysAddr": "u64", "PageTableIndex": "u16", "PageOffset": "u16", "PageTableLevel": "u8"}
WIDTH = {"u64": 64, "i64": 64, "usize": 64, "u32": 32, "u16": 16, "u8": 8}

TOK = re.compile(r"""\s*(?:(//[^\n]*|/\*.*?\*/)|(0x[0-9a-fA-F_]+|0b[01_]+|[0-9][0-9_]*)(?:_?([ui](?:8|16|32|64|size)))?|([A-Za-z_][A-Za-z0-9_]*!?)|("(?:[^"\\]|\\.)*")|(\.\.=|\.\.|::|->|=>|==|!=|<=|>=|<<=|>>=|<<|>>|&&|\|\||[+\-*/%&|^]=|[{}()\[\];,.:?!&|^+\-*/%<>=#'@]))""", re.S)


def tokenize(src):
    toks, i = [], 0
    while i < len(src):
        m = TOK.match(src, i)
        if not m:
            if src[i:].strip() == "":
                break
            raise ValueError(f"cannot tokenize at {src[i:i+40]!r}")
        i = m.end()
        if m.group(1):
            continue
        if m.group(2):
            toks.append(("num", int(m.group(2).replace("_", ""), 0), m.group(3)))
        elif m.group(4):
            toks.append(("id", m.group(4)))
        elif m.group(5):
            toks.append(("str", m.group(5)))
        else:
            toks.append(("op", m.group(6)))
    return toks


class P:
    """Parser: tokens -> nested tuples."""

    def __init__(self, toks):
        self.t, self.i = toks, 0

    def peek(self, k=0):
        return self.t[self.i + k] if self.i + k < len(self.t) else ("eof",)

    def at(self, *ops):
        p = self.peek()
        return p[0] == "op" and p[1] in ops

    def at_id(self, name=None):
        p = self.peek()
        return p[0] == "id" and (name is None or p[1] == name)

    def eat(self, op):
        if not self.at(op):
            raise ValueError(f"expected {op!r}, found {self.peek()!r} (token {self.i})")
        self.i += 1

    def eat_id(self, name=None):
        if not self.at_id(name):
            raise ValueError(f"expected identifier {name!r}, found {self.peek()!r}")
        self.i += 1
        return self.t[self.i - 1][1]

    # ---- types
    def ty(self):
        if self.at("&"):
            self.i += 1
            return self.ty()
        name = self.eat_id()
        while self.at("::"):
            self.i += 1
            name = self.eat_id()
        args = []
        if self.at("<"):
            self.i += 1
            while not self.at(">"):
                args.append(self.ty())
                if self.at(","):
                    self.i += 1
            self.eat(">")
        return (name, args)

    # ---- blocks and statements
    def block(self):
        self.eat("{")
        stmts = []
        while not self.at("}"):
            stmts.append(self.stmt())
        self.eat("}")
        return stmts

    def stmt(self):
        if self.at_id("let"):
            self.i += 1
            mut = False
            if self.at_id("mut"):
                self.i += 1
                mut = True
            name = self.eat_id()
            if self.at(":"):
                self.i += 1
                self.ty()
            self.eat("=")
            e = self.expr()
            self.eat(";")
            return ("let", name, e)
        if self.at_id("return"):
            self.i += 1
            e = self.expr()
            self.eat(";")
            return ("return", e)
        if self.at_id("assert!"):
            self.i += 1
            self.eat("(")
            c = self.expr()
            while self.at(","):
                self.i += 1
                if self.peek()[0] == "str":
                    self.i += 1
                else:
                    self.expr()
            self.eat(")")
            self.eat(";")
            return ("assert", c)
        e = self.expr()
        for op in ("&=", "|=", "^=", "+=", "-=", "<<=", ">>="):
            if self.at(op):
                self.i += 1
                rhs = self.expr()
                self.eat(";")
                return ("opassign", e, op[:-1], rhs)
        if self.at(";"):
            self.i += 1
            return ("expr;", e)
        # tail expression, or a block-like expression statement without `;`
        if e[0] in ("if", "iflet", "match") and not self.at("}"):
            return ("expr;", e)
        return ("tail", e)

    # ---- expressions (precedence climbing)
    PREC = [("||",), ("&&",), ("==", "!=", "<", "<=", ">", ">="), ("|",), ("^",), ("&",), ("<<", ">>"), ("+", "-"), ("*", "/", "%")]

    def expr(self, lvl=0, nostruct=False):
        if lvl == len(self.PREC):
            return self.cast(nostruct)
        lhs = self.expr(lvl + 1, nostruct)
        while self.at(*self.PREC[lvl]):
            op = self.peek()[1]
            # `<` after a path could open generics; not in this subset
            self.i += 1
            rhs = self.expr(lvl + 1, nostruct)
            lhs = ("bin", op, lhs, rhs)
        return lhs

    def cast(self, nostruct):
        e = self.unary(nostruct)
        while self.at_id("as"):
            self.i += 1
            e = ("cast", e, self.ty())
        return e

    def unary(self, nostruct):
        if self.at("!"):
            self.i += 1
            return ("not", self.unary(nostruct))
        if self.at("&") or self.at("*"):
            self.i += 1
            if self.at_id("mut"):
                self.i += 1
            return self.unary(nostruct)
        return self.postfix(self.atom(nostruct))

    def postfix(self, e):
        while True:
            if self.at("?"):
                self.i += 1
                e = ("try", e)
            elif self.at("."):
                self.i += 1
                p = self.peek()
                if p[0] == "num":
                    self.i += 1
                    e = ("field", e, p[1])
                else:
                    name = self.eat_id()
                    if self.at("::"):
                        self.i += 1
                        self.eat("<")
                        while not self.at(">"):
                            self.i += 1
                        self.eat(">")
                    if self.at("("):
                        e = ("mcall", e, name, self.args())
                    else:
                        e = ("fieldn", e, name)
            else:
                return e

    def args(self):
        self.eat("(")
        out = []
        while not self.at(")"):
            out.append(self.expr())
            if self.at(","):
                self.i += 1
        self.eat(")")
        return out

    def atom(self, nostruct):
        p = self.peek()
        if p[0] == "num":
            self.i += 1
            if self.at("..") or self.at("..="):
                incl = self.peek()[1] == "..="
                self.i += 1
                hi = None
                if self.peek()[0] == "num":
                    hi = self.peek()[1] + (1 if incl else 0)
                    self.i += 1
                return ("range", p[1], hi)
            return ("num", p[1], p[2])
        if self.at("("):
            self.i += 1
            e = self.expr()
            self.eat(")")
            return ("paren", e)
        if self.at("{"):
            return ("block", self.block())
        if p[0] == "id":
            name = p[1]
            if name == "unsafe":
                self.i += 1
                return ("block", self.block())
            if name == "if":
                self.i += 1
                if self.at_id("let"):
                    self.i += 1
                    pat = self.pattern()
                    self.eat("=")
                    scrut = self.expr(nostruct=True)
                    a = self.block()
                    self.eat_id("else")
                    b = self.block()
                    return ("iflet", pat, scrut, a, b)
                c = self.expr(nostruct=True)
                a = self.block()
                b = None
                if self.at_id("else"):
                    self.i += 1
                    b = [("tail", self.atom(False))] if self.at_id("if") else self.block()
                return ("if", c, a, b)
            if name == "match":
                self.i += 1
                scrut = self.expr(nostruct=True)
                self.eat("{")
                arms = []
                while not self.at("}"):
                    pat = self.pattern()
                    self.eat("=>")
                    if self.at("{"):
                        body = self.block()
                    else:
                        body = [("tail", self.expr())]
                    if self.at(","):
                        self.i += 1
                    arms.append((pat, body))
                self.eat("}")
                return ("match", scrut, arms)
            if name == "panic!":
                self.i += 1
                self.eat("(")
                depth = 1
                while depth:
                    if self.at("("):
                        depth += 1
                    elif self.at(")"):
                        depth -= 1
                    self.i += 1
                return ("panic",)
            # path
            self.i += 1
            path = [name]
            while self.at("::"):
                self.i += 1
                path.append(self.eat_id())
            if self.at("("):
                return ("call", path, self.args())
            return ("path", path)
        raise ValueError(f"unexpected token {p!r}")

    def pattern(self):
        p = self.peek()
        if p[0] == "num":
            self.i += 1
            return ("plit", p[1])
        name = self.eat_id()
        if name == "_":
            return ("pwild",)
        if self.at("("):
            self.i += 1
            inner = self.eat_id()
            self.eat(")")
            return ("pctor", name, inner)
        return ("pctor", name, None)


# --------------------------------------------------------------------------- locating functions

def find_fn(src, impl, name):
    """Return (params text, return type text, body text) of `fn name` inside `impl <impl> {` (or at top level)."""
    start = 0
    if impl is not None:
        m = re.search(r"^impl\s+" + re.escape(impl) + r"\s*\{", src, re.M)
        if not m:
            raise ValueError(f"impl {impl} not found")
        start = m.end()
    if impl is None:
        m = re.search(r"^pub(?:\([a-z]+\))?\s+(?:const\s+)?(?:unsafe\s+)?fn\s+" + re.escape(name) + r"\s*(?:<[^>]*>)?\s*\(", src, re.M)
    else:
        m = re.compile(r"\bfn\s+" + re.escape(name) + r"\s*(?:<[^>]*>)?\s*\(").search(src, start)
    if not m:
        raise ValueError(f"fn {name} not found in impl {impl}")
    i = m.end() - 1
    depth, j = 0, i
    while True:
        if src[j] == "(":
            depth += 1
        elif src[j] == ")":
            depth -= 1
            if depth == 0:
                break
        j += 1
    params = src[i + 1:j]
    k = src.index("{", j)
    ret = src[j + 1:k].strip()
    ret = ret[2:].strip() if ret.startswith("->") else ""
    ret = re.split(r"\bwhere\b", ret)[0].strip()
    depth, e = 0, k
    while True:
        if src[e] == "{":
            depth += 1
        elif src[e] == "}":
            depth -= 1
            if depth == 0:
                break
        e += 1
    return params, ret, src[k:e + 1]


# --------------------------------------------------------------------------- typing + emission

class Ty:
    def __init__(self, kind, arg=None):
        self.kind, self.arg = kind, arg   # kind: u64 i64 u16 u8 usize u32 bool | option | result | unit | never

    def __repr__(self):
        return self.kind + (f"<{self.arg}>" if self.arg else "")

    def lean(self):
        if self.kind in WIDTH:
            return f"BitVec {WIDTH[self.kind]}"
        if self.kind == "bool":
            return "Bool"
        if self.kind == "option":
            return f"Option ({self.arg.lean()})"
        if self.kind == "result":
            return f"Except Unit ({self.arg.lean()})"
        if self.kind == "unit":
            return "Unit"
        raise ValueError(f"no Lean type for {self}")

    def __eq__(self, o):
        return isinstance(o, Ty) and self.kind == o.kind and self.arg == o.arg


def conv_ty(t, selfty=None):
    name, args = t
    if name == "Self":
        name = selfty
    if name in NEWTYPES:
        return Ty(NEWTYPES[name])
    if name in WIDTH or name == "bool":
        return Ty(name)
    if name == "Option":
        return Ty("option", conv_ty(args[0], selfty))
    if name == "Result":
        return Ty("result", conv_ty(args[0], selfty))
    raise ValueError(f"type {name} not in the subset")


def lname(impl, fn):
    return (impl + "_" if impl else "") + fn


class Emit:
    """Translate one function body to a Lean term of type `R <ret>`."""

    def __init__(self, impl, sigs, consts):
        self.impl, self.sigs, self.consts = impl, sigs, consts
        self.n = 0
        self.deps = set()

    def fresh(self, base="v"):
        self.n += 1
        return f"{base}_{self.n}"

    def lit(self, v, ty):
        if ty.kind not in WIDTH:
            raise ValueError(f"integer literal of type {ty}")
        return f"{hex(v)}#{WIDTH[ty.kind]}"

    # expression -> (kind, term, type): kind 'p' pure term of Lean type ty.lean(); 'm' term of type R (ty.lean())
    def ex(self, e, env, expect=None):
        k = e[0]
        if k == "paren":
            return self.ex(e[1], env, expect)
        if k == "num":
            ty = Ty(e[2]) if e[2] else (expect if expect is not None and expect.kind in WIDTH else Ty("u64"))
            return ("p", self.lit(e[1], ty), ty)
        if k == "path":
            path = e[1]
            if len(path) == 1 and path[0] in env:
                return ("p", env[path[0]][0], env[path[0]][1])
            if len(path) == 1 and path[0] == "None":
                if expect is None or expect.kind != "option":
                    raise ValueError("cannot type `None`")
                return ("p", "none", expect)
            if path[-1] in self.consts:
                term, ty = self.consts[path[-1]]
                return ("p", term, ty)
            raise ValueError(f"unknown path {'::'.join(path)}")
        if k == "field":
            kk, t, ty = self.ex(e[1], env)
            return (kk, t, ty)          # `.0` of a newtype: identity
        if k == "not":
            kk, t, ty = self.ex(e[1], env, expect)
            return self.lift1(kk, t, ty, (lambda x: f"(!{x})") if ty.kind == "bool" else (lambda x: f"(~~~{x})"), ty)
        if k == "cast":
            kk, t, ty = self.ex(e[1], env)
            to = conv_ty(e[2], self.impl)
            if ty.kind not in WIDTH or to.kind not in WIDTH:
                raise ValueError(f"cast {ty} as {to}")
            w1, w2 = WIDTH[ty.kind], WIDTH[to.kind]
            if w1 == w2:
                f = lambda x: x
            elif ty.kind.startswith("i") and w2 > w1:
                f = lambda x: f"(({x}).signExtend {w2})"
            else:
                f = lambda x: f"(({x}).setWidth {w2})"
            return self.lift1(kk, t, ty, f, to)
        if k == "bin":
            return self.binop(e, env, expect)
        if k == "call":
            return self.call(e[1], e[2], env, expect)
        if k == "mcall":
            return self.mcall(e, env, expect)
        if k == "block":
            ty = expect
            return ("m", self.block(e[1], dict(env), ty, None), ty)
        if k in ("if", "iflet", "match"):
            if expect is None:
                raise ValueError(f"`{k}` expression needs an expected type")
            return ("m", self.block([("tail", e)], dict(env), expect, None), expect)
        if k == "panic":
            if expect is None:
                raise ValueError("`panic!` needs an expected type")
            return ("m", "R.panic", expect)
        raise ValueError(f"expression form {k} not in the subset")

    def lift1(self, kk, t, ty, f, rty):
        if kk == "p":
            return ("p", f(t), rty)
        v = self.fresh()
        return ("m", f"(R.bind ({t}) fun {v} => R.ok {f(v)})", rty)

    def bind_all(self, parts, build, rty, impure_result=False):
        """parts: list of (kind, term, ty); build(list of pure terms) -> term (pure, or R if impure_result)."""
        names, wraps = [], []
        for kk, t, _ in parts:
            if kk == "p":
                names.append(t)
            else:
                v = self.fresh()
                names.append(v)
                wraps.append((t, v))
        body = build(names)
        if not wraps and not impure_result:
            return ("p", body, rty)
        term = body if impure_result else f"R.ok {body}"
        for t, v in reversed(wraps):
            term = f"(R.bind ({t}) fun {v} => {term})"
        return ("m", term, rty)

    def binop(self, e, env, expect):
        _, op, l, r = e
        if op in ("<<", ">>"):
            lp = self.ex(l, env, expect)
            lty = lp[2]
            if r[0] == "num":
                if r[1] >= WIDTH[lty.kind]:
                    raise ValueError("literal shift amount not below the width")
                amt = ("p", str(r[1]), Ty("u8"))
                if op == "<<":
                    f = lambda xs: f"({xs[0]} <<< {xs[1]})"
                elif lty.kind.startswith("i"):
                    f = lambda xs: f"(({xs[0]}).sshiftRight {xs[1]})"
                else:
                    f = lambda xs: f"({xs[0]} >>> {xs[1]})"
                return self.bind_all([lp, amt], f, lty)
            amt = self.ex(r, env)
            if lty.kind.startswith("i"):
                raise ValueError("signed shift by a non-literal amount not in the subset")
            fn = "Rust.shl" if op == "<<" else "Rust.shr"
            return self.bind_all([lp, amt], lambda xs: f"({fn} cfg {xs[0]} {xs[1]})", lty, impure_result=True)
        # operand types: infer the non-literal side first
        if l[0] == "num" and not l[2]:
            rp = self.ex(r, env, expect)
            lp = self.ex(l, env, rp[2])
        else:
            lp = self.ex(l, env, expect if op not in ("==", "!=", "<", "<=", ">", ">=") else None)
            rp = self.ex(r, env, lp[2])
        ty = lp[2]
        if rp[2] != ty:
            raise ValueError(f"operand types differ: {ty} {op} {rp[2]}")
        if op in ("==", "!="):
            f = (lambda xs: f"({xs[0]} == {xs[1]})") if op == "==" else (lambda xs: f"({xs[0]} != {xs[1]})")
            return self.bind_all([lp, rp], f, Ty("bool"))
        if op in ("<", "<=", ">", ">="):
            if ty.kind.startswith("i"):
                raise ValueError("signed comparison not in the subset")
            table = {"<": "BitVec.ult {0} {1}", "<=": "BitVec.ule {0} {1}", ">": "BitVec.ult {1} {0}", ">=": "BitVec.ule {1} {0}"}
            return self.bind_all([lp, rp], lambda xs: "(" + table[op].format(xs[0], xs[1]) + ")", Ty("bool"))
        if op in ("&", "|", "^"):
            if ty.kind == "bool":
                sym = {"&": "&&", "|": "||", "^": "^^"}[op]
            else:
                sym = {"&": "&&&", "|": "|||", "^": "^^^"}[op]
            return self.bind_all([lp, rp], lambda xs: f"({xs[0]} {sym} {xs[1]})", ty)
        if op in ("&&", "||"):
            return self.bind_all([lp, rp], lambda xs: f"({xs[0]} {op} {xs[1]})", Ty("bool"))
        if op in ("+", "-", "*"):
            fn = {"+": "Rust.add", "-": "Rust.sub", "*": "Rust.mul"}[op]
            return self.bind_all([lp, rp], lambda xs: f"({fn} cfg {xs[0]} {xs[1]})", ty, impure_result=True)
        if op in ("%", "/"):
            fn = {"%": "Rust.rem", "/": "Rust.div"}[op]
            return self.bind_all([lp, rp], lambda xs: f"({fn} {xs[0]} {xs[1]})", ty, impure_result=True)
        raise ValueError(f"operator {op} not in the subset")

    def call(self, path, args, env, expect):
        name = path[-1]
        if path == ["Some"] or path == ["Ok"]:
            inner_expect = expect.arg if expect is not None and expect.kind in ("option", "result") else None
            a = self.ex(args[0], env, inner_expect)
            if path == ["Some"]:
                return self.bind_all([a], lambda xs: f"(some {xs[0]})", Ty("option", a[2]))
            return self.bind_all([a], lambda xs: f"(Except.ok {xs[0]})", Ty("result", a[2]))
        if path == ["Err"]:
            if expect is None or expect.kind != "result":
                raise ValueError("cannot type `Err(..)`")
            return ("p", "(Except.error ())", expect)
        if len(path) == 1 and (path[0] in NEWTYPES or path[0] == "Self"):   # tuple-struct constructor: identity
            return self.ex(args[0], env, Ty(NEWTYPES[self.impl if path[0] == "Self" else path[0]]))
        owner = None
        if len(path) == 2:
            owner = self.impl if path[0] == "Self" else path[0]
        if name == "new_unsafe" and owner in ("VirtAddr", "PhysAddr"):
            return self.ex(args[0], env, Ty("u64"))
        key = (owner, name)
        if key not in self.sigs:
            raise ValueError(f"call of {'::'.join(path)}: not a translated function")
        ptys, rty = self.sigs[key]
        parts = [self.ex(a, env, t) for a, t in zip(args, ptys)]
        for p, t in zip(parts, ptys):
            if p[2] != t:
                raise ValueError(f"argument type {p[2]} for parameter {t} of {name}")
        self.deps.add(key)
        return self.bind_all(parts, lambda xs: f"({lname(owner, name)} cfg " + " ".join(xs) + ")", rty, impure_result=True)

    def mcall(self, e, env, expect):
        _, recv, name, args = e
        if name in ("into", "as_u64", "clone"):
            return self.ex(recv, env, expect)
        rp = self.ex(recv, env)
        ty = rp[2]
        if name in ("checked_add", "checked_sub"):
            a = self.ex(args[0], env, ty)
            fn = "Rust.checkedAdd" if name == "checked_add" else "Rust.checkedSub"
            return self.bind_all([rp, a], lambda xs: f"({fn} {xs[0]} {xs[1]})", Ty("option", ty))
        if name == "is_power_of_two":
            return self.bind_all([rp], lambda xs: f"(Rust.isPowerOfTwo {xs[0]})", Ty("bool"))
        if name == "get_bits":
            rg = args[0]
            if rg[0] != "range":
                raise ValueError("get_bits with a non-literal range")
            lo, hi = rg[1], rg[2] if rg[2] is not None else WIDTH[ty.kind]
            return self.bind_all([rp], lambda xs: f"(Rust.getBits {xs[0]} {lo} {hi})", ty)
        if name == "unwrap":
            if ty.kind != "option":
                raise ValueError("unwrap on non-Option")
            v = self.fresh()
            return self.bind_all([rp], lambda xs: f"(Rust.unwrap {xs[0]})", ty.arg, impure_result=True)
        if (self.impl, name) in self.sigs:
            ptys, rty = self.sigs[(self.impl, name)]
            parts = [rp] + [self.ex(a, env, t) for a, t in zip(args, ptys[1:])]
            for p, t in zip(parts, ptys):
                if p[2] != t:
                    raise ValueError(f"argument type {p[2]} for parameter {t} of {name}")
            self.deps.add((self.impl, name))
            return self.bind_all(parts, lambda xs: f"({lname(self.impl, name)} cfg " + " ".join(xs) + ")", rty, impure_result=True)
        raise ValueError(f"method {name} not in the subset")

    # ---- blocks: statements + continuation, result type rty (the function's return type), term : R rty
    def ret(self, e, env, rty):
        kk, t, ty = self.ex(e, env, rty)
        if ty != rty:
            raise ValueError(f"returned {ty}, function returns {rty}")
        return f"R.ok {t}" if kk == "p" else t

    def block(self, stmts, env, rty, rest):
        """rest: None, or a function env -> term for the statements following this block."""
        if not stmts:
            if rest is None:
                raise ValueError("block without value")
            return rest(env)
        s, tail = stmts[0], stmts[1:]
        cont = lambda env2: self.block(tail, env2, rty, rest)
        k = s[0]
        if k == "let":
            _, name, e = s
            if e[0] == "try":
                kk, t, ty = self.ex(e[1], env)
                v = name + "_" + str(self.n + 1)
                self.n += 1
                if ty.kind == "option" and rty.kind == "option":
                    env2 = dict(env); env2[name] = (v, ty.arg)
                    inner = f"Rust.onOpt {{0}} (fun {v} =>\n  {cont(env2)}) (R.ok none)"
                    if kk == "p":
                        return "(" + inner.format(t) + ")"
                    w = self.fresh()
                    return f"(R.bind ({t}) fun {w} => " + inner.format(w) + ")"
                raise ValueError("`?` outside Option-returning function")
            kk, t, ty = self.ex(e, env)
            v = name + "_" + str(self.n + 1)
            self.n += 1
            env2 = dict(env); env2[name] = (v, ty)
            if kk == "p":
                return f"(let {v} := {t}\n  {cont(env2)})"
            return f"(R.bind ({t}) fun {v} =>\n  {cont(env2)})"
        if k == "opassign":
            _, lhs, op, rhs = s
            if lhs[0] != "path" or len(lhs[1]) != 1:
                raise ValueError("compound assignment to a non-variable")
            name = lhs[1][0]
            kk, t, ty = self.ex(("bin", op, lhs, rhs), env)
            v = name + "_" + str(self.n + 1)
            self.n += 1
            env2 = dict(env); env2[name] = (v, ty)
            if kk == "p":
                return f"(let {v} := {t}\n  {cont(env2)})"
            return f"(R.bind ({t}) fun {v} =>\n  {cont(env2)})"
        if k == "assert":
            kk, t, ty = self.ex(s[1], env)
            if kk != "p":
                v = self.fresh()
                return f"(R.bind ({t}) fun {v} => if {v} then {cont(env)} else R.panic)"
            return f"(if {t} then {cont(env)} else R.panic)"
        if k == "return":
            return self.ret(s[1], env, rty)
        if k == "tail":
            e = s[1]
            if tail:
                raise ValueError("statements after a tail expression")
            if e[0] in ("if", "iflet", "match", "block"):
                return self.control(e, env, rty, None, value=True)
            if rest is not None:
                raise ValueError("value in statement position")
            return self.ret(e, env, rty)
        if k == "expr;":
            e = s[1]
            if e[0] == "mcall" and e[2] == "set_bits":
                recv = e[1]
                if recv[0] != "path" or len(recv[1]) != 1:
                    raise ValueError("set_bits on a non-variable")
                name = recv[1][0]
                cur, ty = env[name]
                rg = e[3][0]
                lo, hi = rg[1], rg[2] if rg[2] is not None else WIDTH[ty.kind]
                kk, t, _ = self.ex(e[3][1], env, ty)
                if kk != "p":
                    raise ValueError("impure set_bits value")
                v = name + "_" + str(self.n + 1)
                self.n += 1
                env2 = dict(env); env2[name] = (v, ty)
                return f"(R.bind (Rust.setBits {cur} {lo} {hi} {t}) fun {v} =>\n  {cont(env2)})"
            if e[0] in ("if", "iflet", "match", "block"):
                return self.control(e, env, rty, cont, value=False)
            raise ValueError(f"expression statement {e[0]} not in the subset")
        raise ValueError(f"statement {k} not in the subset")

    def control(self, e, env, rty, cont, value):
        """if / if let / match / block, either as the value of the enclosing block (cont None) or as a statement
        followed by `cont` (the continuation is duplicated into every branch)."""
        rest = (lambda env2: cont(env2)) if cont is not None else None
        if not value and rest is None:
            raise ValueError("statement without continuation")
        k = e[0]
        if k == "block":
            return self.block(e[1], dict(env), rty, rest)
        if k == "if":
            kk, c, _ = self.ex(e[1], env)
            a = self.block(e[2], dict(env), rty, rest)
            if e[3] is None:
                if rest is None:
                    raise ValueError("`if` without else as a value")
                b = rest(env)
            else:
                b = self.block(e[3], dict(env), rty, rest)
            if kk == "p":
                return f"(if {c} then {a} else {b})"
            v = self.fresh()
            return f"(R.bind ({c}) fun {v} => if {v} then {a} else {b})"
        if k == "iflet":
            _, pat, scrut, a, b = e
            kk, t, ty = self.ex(scrut, env)
            if pat[0] != "pctor" or pat[1] != "Some" or ty.kind != "option":
                raise ValueError("if let pattern not in the subset")
            v = pat[2] + "_" + str(self.n + 1)
            self.n += 1
            env2 = dict(env); env2[pat[2]] = (v, ty.arg)
            ta = self.block(a, env2, rty, rest)
            tb = self.block(b, dict(env), rty, rest)
            body = "Rust.onOpt {0} (fun " + v + " =>\n  " + ta + ")\n  " + tb
            if kk == "p":
                return "(" + body.format(t) + ")"
            w = self.fresh()
            return f"(R.bind ({t}) fun {w} => " + body.format(w) + ")"
        if k == "match":
            _, scrut, arms = e
            kk, t, ty = self.ex(scrut, env)
            sv = self.fresh("scrut")
            if ty.kind in WIDTH:
                out, default = [], None
                for pat, body in arms:
                    if pat[0] == "plit":
                        out.append((self.lit(pat[1], ty), self.block(body, dict(env), rty, rest)))
                    elif pat[0] == "pwild":
                        default = self.block(body, dict(env), rty, rest) if body else rest(env)
                    else:
                        raise ValueError("match pattern not in the subset")
                if default is None:
                    raise ValueError("integer match without `_` arm")
                term = default
                for litv, body in reversed(out):
                    term = f"(if {sv} == {litv} then {body}\n  else {term})"
            elif ty.kind in ("option", "result"):
                yes, no = None, None
                for pat, body in arms:
                    if pat[0] == "pwild":
                        if no is None:
                            no = self.block(body, dict(env), rty, rest)
                        continue
                    if pat[0] != "pctor" or pat[1] not in ("Some", "None", "Ok", "Err"):
                        raise ValueError("match pattern not in the subset")
                    env2 = dict(env)
                    if pat[1] in ("Some", "Ok"):
                        if yes is not None:
                            continue
                        binder = "_"
                        if pat[2] is not None and pat[2] != "_":
                            binder = pat[2] + "_" + str(self.n + 1)
                            self.n += 1
                            env2[pat[2]] = (binder, ty.arg)
                        yes = f"(fun {binder} =>\n  {self.block(body, env2, rty, rest)})"
                    else:
                        if no is None:
                            no = self.block(body, env2, rty, rest)
                if yes is None or no is None:
                    raise ValueError("match on Option/Result needs both alternatives")
                comb = "Rust.onOpt" if ty.kind == "option" else "Rust.onRes"
                term = f"({comb} {sv} {yes}\n  {no})"
            else:
                raise ValueError(f"match on {ty}")
            if kk == "p":
                return f"(let {sv} := {t}\n  {term})"
            return f"(R.bind ({t}) fun {sv} =>\n  {term})"
        raise ValueError(k)


def parse_params(params, impl):
    out = []
    for piece in [p.strip() for p in params.split(",") if p.strip()]:
        if piece in ("self", "&self", "&mut self", "mut self"):
            out.append(("self", Ty(NEWTYPES[impl])))
            continue
        name, ty = piece.split(":", 1)
        name = name.replace("mut ", "").strip()
        out.append((name, conv_ty(P(tokenize(ty)).ty(), impl)))
    return out


def generate(repo, outdir):
    srcs = {}
    sigs, parsed = {}, []
    for f, impl, fn in TARGETS:
        if f not in srcs:
            srcs[f] = open(os.path.join(repo, f)).read()
        params, ret, body = find_fn(srcs[f], impl, fn)
        ps = parse_params(params, impl)
        rty = conv_ty(P(tokenize(ret)).ty(), impl) if ret else Ty("unit")
        sigs[(impl, fn)] = ([t for _, t in ps], rty)
        parsed.append((f, impl, fn, ps, rty, body))
    # constants used by the functions
    consts = {}
    m = re.search(r"const\s+ADDRESS_SPACE_SIZE\s*:\s*u64\s*=\s*([^;]+);", srcs["src/addr.rs"])
    if not m:
        raise ValueError("ADDRESS_SPACE_SIZE not found")
    consts["ADDRESS_SPACE_SIZE"] = (hex(int(m.group(1).replace("_", ""), 0)) + "#64", Ty("u64"))
    m = re.search(r"const\s+ENTRY_COUNT\s*:\s*usize\s*=\s*([^;]+);", srcs["src/structures/paging/page_table.rs"])
    if not m:
        raise ValueError("ENTRY_COUNT not found")
    consts["ENTRY_COUNT"] = (hex(int(m.group(1).replace("_", ""), 0)) + "#64", Ty("usize"))
    lines = ["/-", "GENERATED by translator/gen_fns.py from the Rust source of /repo — do not edit. Rewritten on every run.",
             "One definition per translated function, over the fixed-width semantics of `X86Model/Base/Rust.lean`.", "-/",
             "import X86Model.Base.Rust", "", "set_option linter.unusedVariables false", "", "namespace X86.Generated.Src", "open X86", ""]
    defs = {}
    for f, impl, fn, ps, rty, body in parsed:
        em = Emit(impl, sigs, consts)
        env = {}
        binders = []
        for name, ty in ps:
            env[name] = (name + "_0", ty)
            binders.append(f"({name}_0 : {ty.lean()})")
        stmts = P(tokenize(body)).block()
        term = em.block(stmts, env, rty, None)
        text = [f"/-- `{(impl + '::') if impl else ''}{fn}` ({f}) -/",
                f"def {lname(impl, fn)} (cfg : Cfg) " + " ".join(binders) + f" : R ({rty.lean()}) :=",
                "  " + term, ""]
        defs[(impl, fn)] = (text, em.deps)
    # callees first (the source has no recursion among the translated functions; a cycle raises)
    done, order = set(), []

    def visit(key, stack):
        if key in done:
            return
        if key in stack:
            raise ValueError(f"recursion among translated functions at {key}")
        for d in sorted(defs[key][1], key=str):
            visit(d, stack + [key])
        done.add(key)
        order.append(key)

    for f, impl, fn, *_ in parsed:
        visit((impl, fn), [])
    for key in order:
        lines += defs[key][0]
    lines += ["end X86.Generated.Src", ""]
    path = os.path.join(outdir, "SrcFns.lean")
    write_if_changed(path, "\n".join(lines))
    return [path]


if __name__ == "__main__":
    out = generate(sys.argv[1] if len(sys.argv) > 1 else "/repo", sys.argv[2] if len(sys.argv) > 2 else "/tmp")
    print(open(out[0]).read())
