#!/usr/bin/env python3
"""Translator: the pure integer functions of the crate, Rust source -> Lean definitions (Generated/SrcFns.lean).

The arithmetic core of the address, page, frame, page-table-entry and selector types is small, loop-free integer
code. This module parses the functions listed in TARGETS with a recursive-descent parser for the Rust subset they
use and emits one Lean definition per function over the fixed-width semantics of `X86Model/Base/Rust.lean`
(integers = `BitVec`, wrapping shifts, arithmetic `>>` on `i64`, `checked_*`, profile-dependent `+ - *`,
`bit_field::{get_bits,set_bits}`, `bitflags` set operations, panics = `R.panic`). The hand-written models are then
*proved equal* to these definitions (`Properties/SrcTie.lean`): for these functions the tie between model and
source is a theorem re-checked on every run, for all inputs, not a sample.

What is erased: single-field structs and tuple structs are their field (`VirtAddr`, `Page<S>`, `PageTableEntry`,
`PageTableFlags`, ...); multi-field structs are tuples of their fields; a type parameter `S: PageSize` is the extra
first argument `S_SIZE` (= `S::SIZE`); `&`, `&mut`, `*`, `unsafe`, `.into()`, `.clone()`, `as_u64()` on an erased
newtype are the identity; a `&mut self` method returns `(result, self')`.

Subset: `let [mut] x [: T] = e;`, `x = e;`, `x op= e;`, `x.set_bits(a..b, v);`, `assert!(c, ..)`, `if`/`else`,
`if let Some(x) = e`, `match` on integers / `Option` / `Result` / unit enums, `return e;`, `e?`, `panic!(..)`,
literals, paths, tuples, struct literals, field access, casts, unary `!`, binary `& | ^ << >> + - * / % == != < <= > >=
&& ||`, calls of other listed functions (incl. operator traits), `checked_add/sub/mul`, `is_power_of_two`,
`get_bits`, `unwrap`, `ok`, `unwrap_or`, `try_from` between 64-bit integers, `from_bits_truncate`, `contains`,
`bits`, `union`/`|` on flags. Anything else raises (reported by run.py as a broken tie) - a rewrite outside the
subset needs the translator extended, it is never silently skipped.
"""
import json
import os
import re
import sys

sys.path.insert(0, os.path.dirname(os.path.abspath(__file__)))
from extract import write_if_changed  # noqa: E402
import gen_consts  # noqa: E402

ADDR = "src/addr.rs"
PAGE = "src/structures/paging/page.rs"
FRAME = "src/structures/paging/frame.rs"
PT = "src/structures/paging/page_table.rs"
REC = "src/structures/paging/mapper/recursive_page_table.rs"
GDT = "src/structures/gdt.rs"
SEG = "src/registers/segmentation.rs"
LIB = "src/lib.rs"
TSS = "src/structures/tss.rs"
IDT = "src/structures/idt.rs"
TLB = "src/instructions/tlb.rs"
DBG = "src/registers/debug.rs"
MSR = "src/registers/model_specific.rs"

# Erased newtypes: nominal type -> underlying integer type.
NEWTYPES = {
    "VirtAddr": "u64", "PhysAddr": "u64", "PageTableIndex": "u16", "PageOffset": "u16", "PageTableLevel": "u8",
    "Page": "u64", "PhysFrame": "u64", "PageTableEntry": "u64", "PageTableFlags": "u64",
    "SegmentSelector": "u16", "PrivilegeLevel": "u8", "DescriptorFlags": "u64",
    "SelectorErrorCode": "u64", "Pcid": "u16", "Dr7Value": "u64", "Dr7Flags": "u64", "Dr6Flags": "u64",
    "DebugAddressRegisterNumber": "u8", "BreakpointCondition": "u8", "BreakpointSize": "u8", "DescriptorTable": "u8",
    "ExceptionVector": "u8", "PatMemoryType": "u8",
}
# Field names of the erased single-field structs (reading the field is the identity).
NEWTYPE_FIELDS = {"Page": "start_address", "PhysFrame": "start_address", "PageTableEntry": "entry",
                  "SelectorErrorCode": "flags", "Dr7Value": "bits"}
IGNORED_FIELDS = {"size", "phantom"}   # PhantomData
# Multi-field structs: name -> [(field, type name)]
STRUCTS = {
    "PageRange": [("start", "Page"), ("end", "Page")],
    "PageRangeInclusive": [("start", "Page"), ("end", "Page")],
    "PhysFrameRange": [("start", "PhysFrame"), ("end", "PhysFrame")],
    "PhysFrameRangeInclusive": [("start", "PhysFrame"), ("end", "PhysFrame")],
    "EntryOptions": [("cs", "SegmentSelector"), ("bits", "u16")],
    "Entry": [("pointer_low", "u16"), ("options", "EntryOptions"), ("pointer_middle", "u16"), ("pointer_high", "u32"),
              ("reserved", "u32")],
}
GENERIC_OWNERS = {"Page", "PhysFrame", "PageRange", "PageRangeInclusive", "PhysFrameRange", "PhysFrameRangeInclusive"}
FLAG_TYPES = {"PageTableFlags", "DescriptorFlags", "Dr7Flags", "Dr6Flags"}
ENUMS = {"PageTableLevel", "PrivilegeLevel", "DebugAddressRegisterNumber", "BreakpointCondition", "BreakpointSize",
         "DescriptorTable", "ExceptionVector", "PatMemoryType"}
# Enums with data: name -> [(variant, [payload types])]; erased to the tuple (tag : u8, payload slots...), the slots
# being the pointwise union of the variants' payloads (unused slots are zero).
DATA_ENUMS = {"Descriptor": [("UserSegment", ["u64"]), ("SystemSegment", ["u64", "u64"])]}
# Local aliases introduced by `use ... as X` inside the translated functions.
TYPE_ALIASES = {"Flags": "DescriptorFlags"}
WIDTH = {"u64": 64, "i64": 64, "usize": 64, "u32": 32, "i32": 32, "u16": 16, "u8": 8}


class T:
    """Target: one function. `impl` is the exact impl header (whitespace-normalised, without `impl` and `{`);
    `owner` the nominal type whose method it is; `key` the name used for dispatch (method name, or operator name +
    right-hand type for operator traits); `size` fixes `S::SIZE` for impls on a concrete page size."""

    def __init__(self, file, impl, fn, owner=None, key=None, lean=None, size=None, call_size=None, generic=None):
        self.file, self.impl, self.fn, self.owner = file, impl, fn, owner
        self.key = key or fn
        self.lean = lean or ((owner + "_" if owner else "") + self.key)
        self.size, self.call_size = size, call_size
        # `generic`: the function has a page-size type parameter `S` (impl-level, or its own for free functions)
        self.generic = generic if generic is not None else (impl is not None and impl.startswith("<S:"))


GS = "<S: PageSize> "
TARGETS = [
    T(ADDR, None, "align_down"),
    T(ADDR, None, "align_up"),
    T(ADDR, "VirtAddr", "new_truncate", "VirtAddr"),
    T(ADDR, "VirtAddr", "try_new", "VirtAddr"),
    T(ADDR, "VirtAddr", "new", "VirtAddr"),
    T(ADDR, "VirtAddr", "zero", "VirtAddr"),
    T(ADDR, "VirtAddr", "as_u64", "VirtAddr"),
    T(ADDR, "VirtAddr", "is_null", "VirtAddr"),
    T(ADDR, "VirtAddr", "align_up", "VirtAddr"),
    T(ADDR, "VirtAddr", "align_down", "VirtAddr"),
    T(ADDR, "VirtAddr", "is_aligned", "VirtAddr"),
    T(ADDR, "VirtAddr", "align_down_u64", "VirtAddr"),
    T(ADDR, "VirtAddr", "is_aligned_u64", "VirtAddr"),
    T(ADDR, "VirtAddr", "page_offset", "VirtAddr"),
    T(ADDR, "VirtAddr", "p1_index", "VirtAddr"),
    T(ADDR, "VirtAddr", "p2_index", "VirtAddr"),
    T(ADDR, "VirtAddr", "p3_index", "VirtAddr"),
    T(ADDR, "VirtAddr", "p4_index", "VirtAddr"),
    T(ADDR, "VirtAddr", "page_table_index", "VirtAddr"),
    T(ADDR, "VirtAddr", "steps_between_u64", "VirtAddr"),
    T(ADDR, "VirtAddr", "steps_between_impl", "VirtAddr"),
    T(ADDR, "VirtAddr", "forward_checked_u64", "VirtAddr"),
    T(ADDR, "VirtAddr", "forward_checked_impl", "VirtAddr"),
    T(ADDR, "VirtAddr", "backward_checked_u64", "VirtAddr"),
    T(ADDR, "Add<u64> for VirtAddr", "add", "VirtAddr", "add_u64"),
    T(ADDR, "AddAssign<u64> for VirtAddr", "add_assign", "VirtAddr", "add_assign_u64"),
    T(ADDR, "Sub<u64> for VirtAddr", "sub", "VirtAddr", "sub_u64"),
    T(ADDR, "SubAssign<u64> for VirtAddr", "sub_assign", "VirtAddr", "sub_assign_u64"),
    T(ADDR, "Sub<VirtAddr> for VirtAddr", "sub", "VirtAddr", "sub_VirtAddr"),
    T(ADDR, "Step for VirtAddr", "steps_between", "VirtAddr", "Step_steps_between"),
    T(ADDR, "Step for VirtAddr", "forward_checked", "VirtAddr", "Step_forward_checked"),
    T(ADDR, "Step for VirtAddr", "backward_checked", "VirtAddr", "Step_backward_checked"),
    T(ADDR, "PhysAddr", "new_truncate", "PhysAddr"),
    T(ADDR, "PhysAddr", "try_new", "PhysAddr"),
    T(ADDR, "PhysAddr", "new", "PhysAddr"),
    T(ADDR, "PhysAddr", "zero", "PhysAddr"),
    T(ADDR, "PhysAddr", "as_u64", "PhysAddr"),
    T(ADDR, "PhysAddr", "is_null", "PhysAddr"),
    T(ADDR, "PhysAddr", "align_up", "PhysAddr"),
    T(ADDR, "PhysAddr", "align_down", "PhysAddr"),
    T(ADDR, "PhysAddr", "is_aligned", "PhysAddr"),
    T(ADDR, "PhysAddr", "align_down_u64", "PhysAddr"),
    T(ADDR, "PhysAddr", "is_aligned_u64", "PhysAddr"),
    T(ADDR, "Add<u64> for PhysAddr", "add", "PhysAddr", "add_u64"),
    T(ADDR, "AddAssign<u64> for PhysAddr", "add_assign", "PhysAddr", "add_assign_u64"),
    T(ADDR, "Sub<u64> for PhysAddr", "sub", "PhysAddr", "sub_u64"),
    T(ADDR, "SubAssign<u64> for PhysAddr", "sub_assign", "PhysAddr", "sub_assign_u64"),
    T(ADDR, "Sub<PhysAddr> for PhysAddr", "sub", "PhysAddr", "sub_PhysAddr"),
    # page_table.rs: index / offset / level / entry
    T(PT, "PageTableIndex", "new", "PageTableIndex"),
    T(PT, "PageTableIndex", "new_truncate", "PageTableIndex"),
    T(PT, "PageTableIndex", "into_u64", "PageTableIndex"),
    T(PT, "Step for PageTableIndex", "steps_between", "PageTableIndex", "Step_steps_between"),
    T(PT, "Step for PageTableIndex", "forward_checked", "PageTableIndex", "Step_forward_checked"),
    T(PT, "Step for PageTableIndex", "backward_checked", "PageTableIndex", "Step_backward_checked"),
    T(PT, "PageOffset", "new", "PageOffset"),
    T(PT, "PageOffset", "new_truncate", "PageOffset"),
    T(PT, "PageTableLevel", "next_lower_level", "PageTableLevel"),
    T(PT, "PageTableLevel", "next_higher_level", "PageTableLevel"),
    T(PT, "PageTableLevel", "table_address_space_alignment", "PageTableLevel"),
    T(PT, "PageTableLevel", "entry_address_space_alignment", "PageTableLevel"),
    T(PT, "PageTableEntry", "new", "PageTableEntry"),
    T(PT, "PageTableEntry", "is_unused", "PageTableEntry"),
    T(PT, "PageTableEntry", "set_unused", "PageTableEntry"),
    T(PT, "PageTableEntry", "flags", "PageTableEntry"),
    T(PT, "PageTableEntry", "addr", "PageTableEntry"),
    T(PT, "PageTableEntry", "frame", "PageTableEntry", call_size="Size4KiB"),
    T(PT, "PageTableEntry", "set_addr", "PageTableEntry"),
    T(PT, "PageTableEntry", "set_frame", "PageTableEntry", call_size="Size4KiB"),
    T(PT, "PageTableEntry", "set_flags", "PageTableEntry"),
    # page.rs
    T(PAGE, GS + "Page<S>", "from_start_address", "Page"),
    T(PAGE, GS + "Page<S>", "from_start_address_unchecked", "Page"),
    T(PAGE, GS + "Page<S>", "containing_address", "Page"),
    T(PAGE, GS + "Page<S>", "start_address", "Page"),
    T(PAGE, GS + "Page<S>", "size", "Page"),
    T(PAGE, GS + "Page<S>", "p4_index", "Page"),
    T(PAGE, GS + "Page<S>", "p3_index", "Page"),
    T(PAGE, GS + "Page<S>", "page_table_index", "Page"),
    T(PAGE, GS + "Page<S>", "range", "Page"),
    T(PAGE, GS + "Page<S>", "range_inclusive", "Page"),
    T(PAGE, GS + "Page<S>", "steps_between_impl", "Page"),
    T(PAGE, GS + "Page<S>", "forward_checked_impl", "Page"),
    T(PAGE, "<S: NotGiantPageSize> Page<S>", "p2_index", "Page"),
    T(PAGE, "Page<Size1GiB>", "from_page_table_indices_1gib", "Page", size="Size1GiB"),
    T(PAGE, "Page<Size2MiB>", "from_page_table_indices_2mib", "Page", size="Size2MiB"),
    T(PAGE, "Page<Size4KiB>", "from_page_table_indices", "Page", size="Size4KiB"),
    T(PAGE, "Page<Size4KiB>", "p1_index", "Page", size="Size4KiB"),
    T(PAGE, GS + "Add<u64> for Page<S>", "add", "Page", "add_u64"),
    T(PAGE, GS + "AddAssign<u64> for Page<S>", "add_assign", "Page", "add_assign_u64"),
    T(PAGE, GS + "Sub<u64> for Page<S>", "sub", "Page", "sub_u64"),
    T(PAGE, GS + "SubAssign<u64> for Page<S>", "sub_assign", "Page", "sub_assign_u64"),
    T(PAGE, GS + "Sub<Self> for Page<S>", "sub", "Page", "sub_Page"),
    T(PAGE, GS + "Step for Page<S>", "steps_between", "Page", "Step_steps_between"),
    T(PAGE, GS + "Step for Page<S>", "forward_checked", "Page", "Step_forward_checked"),
    T(PAGE, GS + "Step for Page<S>", "backward_checked", "Page", "Step_backward_checked"),
    T(PAGE, GS + "PageRange<S>", "is_empty", "PageRange"),
    T(PAGE, GS + "PageRange<S>", "len", "PageRange"),
    T(PAGE, GS + "PageRange<S>", "size", "PageRange"),
    T(PAGE, GS + "Iterator for PageRange<S>", "next", "PageRange"),
    T(PAGE, "PageRange<Size2MiB>", "as_4kib_page_range", "PageRange", size="Size2MiB", call_size="Size4KiB"),
    T(PAGE, GS + "PageRangeInclusive<S>", "is_empty", "PageRangeInclusive"),
    T(PAGE, GS + "PageRangeInclusive<S>", "len", "PageRangeInclusive"),
    T(PAGE, GS + "PageRangeInclusive<S>", "size", "PageRangeInclusive"),
    T(PAGE, GS + "Iterator for PageRangeInclusive<S>", "next", "PageRangeInclusive"),
    # frame.rs
    T(FRAME, GS + "PhysFrame<S>", "from_start_address", "PhysFrame"),
    T(FRAME, GS + "PhysFrame<S>", "from_start_address_unchecked", "PhysFrame"),
    T(FRAME, GS + "PhysFrame<S>", "containing_address", "PhysFrame"),
    T(FRAME, GS + "PhysFrame<S>", "start_address", "PhysFrame"),
    T(FRAME, GS + "PhysFrame<S>", "size", "PhysFrame"),
    T(FRAME, GS + "PhysFrame<S>", "range", "PhysFrame"),
    T(FRAME, GS + "PhysFrame<S>", "range_inclusive", "PhysFrame"),
    T(FRAME, GS + "Add<u64> for PhysFrame<S>", "add", "PhysFrame", "add_u64"),
    T(FRAME, GS + "AddAssign<u64> for PhysFrame<S>", "add_assign", "PhysFrame", "add_assign_u64"),
    T(FRAME, GS + "Sub<u64> for PhysFrame<S>", "sub", "PhysFrame", "sub_u64"),
    T(FRAME, GS + "SubAssign<u64> for PhysFrame<S>", "sub_assign", "PhysFrame", "sub_assign_u64"),
    T(FRAME, GS + "Sub<PhysFrame<S>> for PhysFrame<S>", "sub", "PhysFrame", "sub_PhysFrame"),
    T(FRAME, GS + "PhysFrameRange<S>", "is_empty", "PhysFrameRange"),
    T(FRAME, GS + "PhysFrameRange<S>", "len", "PhysFrameRange"),
    T(FRAME, GS + "PhysFrameRange<S>", "size", "PhysFrameRange"),
    T(FRAME, GS + "Iterator for PhysFrameRange<S>", "next", "PhysFrameRange"),
    T(FRAME, GS + "PhysFrameRangeInclusive<S>", "is_empty", "PhysFrameRangeInclusive"),
    T(FRAME, GS + "PhysFrameRangeInclusive<S>", "len", "PhysFrameRangeInclusive"),
    T(FRAME, GS + "PhysFrameRangeInclusive<S>", "size", "PhysFrameRangeInclusive"),
    T(FRAME, GS + "Iterator for PhysFrameRangeInclusive<S>", "next", "PhysFrameRangeInclusive"),
    # lib.rs / segmentation.rs / gdt.rs: privilege levels, selectors, descriptors (C14, C15, C19)
    T(LIB, "PrivilegeLevel", "from_u16", "PrivilegeLevel"),
    T(SEG, "SegmentSelector", "new", "SegmentSelector"),
    T(SEG, "SegmentSelector", "index", "SegmentSelector"),
    T(SEG, "SegmentSelector", "rpl", "SegmentSelector"),
    T(SEG, "SegmentSelector", "set_rpl", "SegmentSelector"),
    T(GDT, "Descriptor", "dpl", "Descriptor"),
    T(GDT, "Descriptor", "kernel_code_segment", "Descriptor"),
    T(GDT, "Descriptor", "kernel_data_segment", "Descriptor"),
    T(GDT, "Descriptor", "user_data_segment", "Descriptor"),
    T(GDT, "Descriptor", "user_code_segment", "Descriptor"),
    T(GDT, "Descriptor", "tss_segment_unchecked", "Descriptor"),
    # recursive_page_table.rs: the addresses through which the recursive mapper reaches a page's tables (C20)
    T(REC, None, "p3_page", generic=True, lean="rec_p3_page"),
    T(REC, None, "p2_page", generic=True, lean="rec_p2_page"),
    T(REC, None, "p1_page", size="Size4KiB", lean="rec_p1_page"),
    # idt.rs: gate options and selector error codes (C12, C19); tlb.rs: PCIDs; debug.rs: DR7 values (C19)
    T(IDT, "EntryOptions", "minimal", "EntryOptions"),
    T(IDT, "EntryOptions", "set_code_selector", "EntryOptions"),
    T(IDT, "EntryOptions", "set_present", "EntryOptions"),
    T(IDT, "EntryOptions", "present", "EntryOptions"),
    T(IDT, "EntryOptions", "disable_interrupts", "EntryOptions"),
    T(IDT, "EntryOptions", "set_privilege_level", "EntryOptions"),
    T(IDT, "EntryOptions", "privilege_level", "EntryOptions"),
    T(IDT, "EntryOptions", "set_stack_index", "EntryOptions"),
    T(IDT, "EntryOptions", "stack_index", "EntryOptions"),
    T(IDT, "<F> Entry<F>", "missing", "Entry"),
    T(IDT, "<F> Entry<F>", "handler_addr", "Entry"),
    T(IDT, "SelectorErrorCode", "new", "SelectorErrorCode"),
    T(IDT, "SelectorErrorCode", "new_truncate", "SelectorErrorCode"),
    T(IDT, "SelectorErrorCode", "external", "SelectorErrorCode"),
    T(IDT, "SelectorErrorCode", "index", "SelectorErrorCode"),
    T(IDT, "SelectorErrorCode", "is_null", "SelectorErrorCode"),
    T(TLB, "Pcid", "new", "Pcid"),
    T(TLB, "Pcid", "value", "Pcid"),
    T(DBG, "DebugAddressRegisterNumber", "new", "DebugAddressRegisterNumber"),
    T(DBG, "DebugAddressRegisterNumber", "get", "DebugAddressRegisterNumber"),
    T(DBG, "Dr6Flags", "trap", "Dr6Flags"),
    T(DBG, "Dr7Flags", "local_breakpoint_enable", "Dr7Flags"),
    T(DBG, "Dr7Flags", "global_breakpoint_enable", "Dr7Flags"),
    T(DBG, "BreakpointCondition", "from_bits", "BreakpointCondition"),
    T(DBG, "BreakpointCondition", "bit_range", "BreakpointCondition"),
    T(DBG, "BreakpointSize", "bit_range", "BreakpointSize"),
    T(DBG, "BreakpointSize", "new", "BreakpointSize"),
    T(DBG, "BreakpointSize", "from_bits", "BreakpointSize"),
    T(IDT, "SelectorErrorCode", "descriptor_table", "SelectorErrorCode"),
    T(IDT, "TryFrom<u8> for ExceptionVector", "try_from", "ExceptionVector", "try_from_u8"),
    T(MSR, "PatMemoryType", "from_bits", "PatMemoryType"),
    T(MSR, "PatMemoryType", "bits", "PatMemoryType"),
    T(DBG, "Dr7Value", "valid_bits", "Dr7Value"),
    T(DBG, "Dr7Value", "from_bits", "Dr7Value"),
    T(DBG, "Dr7Value", "from_bits_truncate", "Dr7Value"),
    T(DBG, "Dr7Value", "bits", "Dr7Value"),
    T(DBG, "Dr7Value", "flags", "Dr7Value"),
    T(DBG, "Dr7Value", "insert_flags", "Dr7Value"),
    T(DBG, "Dr7Value", "remove_flags", "Dr7Value"),
    T(DBG, "Dr7Value", "toggle_flags", "Dr7Value"),
    T(DBG, "Dr7Value", "set_flags", "Dr7Value"),
    T(DBG, "Dr7Value", "condition", "Dr7Value"),
    T(DBG, "Dr7Value", "set_condition", "Dr7Value"),
    T(DBG, "Dr7Value", "size", "Dr7Value"),
    T(DBG, "Dr7Value", "set_size", "Dr7Value"),
]

SIGS_PATH = os.path.join(os.path.dirname(os.path.abspath(__file__)), "fn_sigs.json")

TOK = re.compile(r"""\s*(?:(//[^\n]*|/\*.*?\*/)|(0x[0-9a-fA-F_]+|0b[01_]+|0o[0-7_]+|[0-9][0-9_]*)(?:_?([ui](?:8|16|32|64|size)))?|([A-Za-z_][A-Za-z0-9_]*!?)|("(?:[^"\\]|\\.)*")|(\.\.=|\.\.|::|->|=>|==|!=|<=|>=|<<=|>>=|<<|>>|&&|\|\||[+\-*/%&|^]=|[{}()\[\];,.:?!&|^+\-*/%<>=#'@]))""", re.S)


def tokenize(src):
    toks, i = [], 0
    while i < len(src):
        m = TOK.match(src, i)
        if not m:
            if src[i:].strip() == "":
                break
            raise ValueError(f"cannot tokenize at {src[i:i+40]!r}")
        i = m.end()
        if m.group(1):
            continue
        if m.group(2):
            toks.append(("num", int(m.group(2).replace("_", ""), 0), m.group(3)))
        elif m.group(4):
            toks.append(("id", m.group(4)))
        elif m.group(5):
            toks.append(("str", m.group(5)))
        else:
            toks.append(("op", m.group(6)))
    return toks


ASSIGN_OPS = ("=", "&=", "|=", "^=", "+=", "-=", "*=", "<<=", ">>=")


class P:
    """Parser: tokens -> nested tuples."""

    def __init__(self, toks):
        self.t, self.i = toks, 0

    def peek(self, k=0):
        return self.t[self.i + k] if self.i + k < len(self.t) else ("eof",)

    def at(self, *ops):
        p = self.peek()
        return p[0] == "op" and p[1] in ops

    def at_id(self, name=None):
        p = self.peek()
        return p[0] == "id" and (name is None or p[1] == name)

    def eat(self, op):
        if not self.at(op):
            raise ValueError(f"expected {op!r}, found {self.peek()!r} (token {self.i})")
        self.i += 1

    def eat_id(self, name=None):
        if not self.at_id(name):
            raise ValueError(f"expected identifier {name!r}, found {self.peek()!r}")
        self.i += 1
        return self.t[self.i - 1][1]

    # ---- types
    def ty(self):
        if self.at("&"):
            self.i += 1
            if self.at_id("mut"):
                self.i += 1
            return self.ty()
        if self.at("*"):
            self.i += 1
            self.eat_id()          # const | mut
            self.ty()
            return ("*ptr", [])
        if self.at("("):
            self.i += 1
            items = []
            while not self.at(")"):
                items.append(self.ty())
                if self.at(","):
                    self.i += 1
            self.eat(")")
            return ("()", items)
        name = self.eat_id()
        while self.at("::"):
            self.i += 1
            name = self.eat_id()
        args = []
        if self.at("<"):
            self.i += 1
            while not self.at(">"):
                args.append(self.ty())
                if self.at(","):
                    self.i += 1
            self.eat(">")
        return (name, args)

    # ---- blocks and statements
    def block(self):
        self.eat("{")
        stmts = []
        while not self.at("}"):
            s = self.stmt()
            if s is not None:
                stmts.append(s)
        self.eat("}")
        return stmts

    def skip_attr(self):
        self.eat("#")
        self.eat("[")
        depth = 1
        while depth:
            if self.at("["):
                depth += 1
            elif self.at("]"):
                depth -= 1
            self.i += 1

    def stmt(self):
        if self.at("#"):
            self.skip_attr()
            return None
        if self.at_id("use"):
            while not self.at(";"):
                self.i += 1
            self.i += 1
            return None
        if self.at_id("let"):
            self.i += 1
            if self.at_id("mut"):
                self.i += 1
            name = self.eat_id()
            ty = None
            if self.at(":"):
                self.i += 1
                ty = self.ty()
            self.eat("=")
            e = self.expr()
            self.eat(";")
            return ("let", name, e, ty)
        if self.at_id("return"):
            self.i += 1
            e = self.expr()
            self.eat(";")
            return ("return", e)
        if self.at_id("assert!") or self.at_id("debug_assert!"):
            dbg = self.peek()[1] == "debug_assert!"
            self.i += 1
            self.eat("(")
            c = self.expr()
            while self.at(","):
                self.i += 1
                if self.peek()[0] == "str":
                    self.i += 1
                else:
                    self.expr()
            self.eat(")")
            self.eat(";")
            return ("assert", c, dbg)
        return self.expr_stmt(in_block=True)

    def expr_stmt(self, in_block):
        """expression, assignment or compound assignment; inside a block also decides `;` / tail."""
        e = self.expr()
        for op in ASSIGN_OPS:
            if self.at(op):
                self.i += 1
                rhs = self.expr()
                if in_block:
                    self.eat(";")
                return ("assign", e, op[:-1], rhs)
        if not in_block:
            return ("tail", e)
        if self.at(";"):
            self.i += 1
            return ("expr;", e)
        if e[0] in ("if", "iflet", "match") and not self.at("}"):
            return ("expr;", e)
        return ("tail", e)

    # ---- expressions (precedence climbing)
    PREC = [("||",), ("&&",), ("==", "!=", "<", "<=", ">", ">="), ("|",), ("^",), ("&",), ("<<", ">>"), ("+", "-"), ("*", "/", "%")]

    def expr(self, lvl=0, nostruct=False):
        if lvl == len(self.PREC):
            return self.cast(nostruct)
        lhs = self.expr(lvl + 1, nostruct)
        while self.at(*self.PREC[lvl]):
            op = self.peek()[1]
            self.i += 1
            rhs = self.expr(lvl + 1, nostruct)
            lhs = ("bin", op, lhs, rhs)
        if lvl == 0 and self.at(".."):
            # `a..b` with computed bounds (a `Range<usize>` value): the pair (a, b)
            self.i += 1
            hi = self.expr(1, nostruct)
            return ("tuple", [lhs, hi])
        return lhs

    def cast(self, nostruct):
        e = self.unary(nostruct)
        while self.at_id("as"):
            self.i += 1
            e = ("cast", e, self.ty())
        return e

    def unary(self, nostruct):
        if self.at("!"):
            self.i += 1
            return ("not", self.unary(nostruct))
        if self.at("&") or self.at("*"):
            self.i += 1
            if self.at_id("mut"):
                self.i += 1
            return self.unary(nostruct)
        return self.postfix(self.atom(nostruct))

    def postfix(self, e):
        while True:
            if self.at("?"):
                self.i += 1
                e = ("try", e)
            elif self.at("."):
                self.i += 1
                p = self.peek()
                if p[0] == "num":
                    self.i += 1
                    e = ("field", e, p[1])
                else:
                    name = self.eat_id()
                    if self.at("::"):
                        self.i += 1
                        self.eat("<")
                        while not self.at(">"):
                            self.i += 1
                        self.eat(">")
                    if self.at("("):
                        e = ("mcall", e, name, self.args())
                    else:
                        e = ("field", e, name)
            else:
                return e

    def args(self):
        self.eat("(")
        out = []
        while not self.at(")"):
            out.append(self.expr())
            if self.at(","):
                self.i += 1
        self.eat(")")
        return out

    def atom(self, nostruct):
        p = self.peek()
        if p[0] == "str":        # message of `expect(..)`: ignored
            self.i += 1
            return ("str",)
        if p[0] == "num":
            self.i += 1
            if self.at("..") or self.at("..="):
                incl = self.peek()[1] == "..="
                self.i += 1
                hi = None
                if self.peek()[0] == "num":
                    hi = self.peek()[1] + (1 if incl else 0)
                    self.i += 1
                return ("range", p[1], hi)
            return ("num", p[1], p[2])
        if self.at(".."):      # `..47`
            self.i += 1
            hi = self.peek()[1]
            self.i += 1
            return ("range", 0, hi)
        if self.at("..="):
            self.i += 1
            hi = self.peek()[1] + 1
            self.i += 1
            return ("range", 0, hi)
        if self.at("("):
            self.i += 1
            if self.at(")"):
                self.i += 1
                return ("tuple", [])
            e = self.expr()
            if self.at(","):
                items = [e]
                while self.at(","):
                    self.i += 1
                    if self.at(")"):
                        break
                    items.append(self.expr())
                self.eat(")")
                return ("tuple", items)
            self.eat(")")
            return ("paren", e)
        if self.at("{"):
            return ("block", self.block())
        if self.at("||"):          # closure without parameters
            self.i += 1
            return ("closure0", self.expr())
        if p[0] == "id":
            name = p[1]
            if name == "unsafe":
                self.i += 1
                return ("block", self.block())
            if name == "if":
                self.i += 1
                if self.at_id("let"):
                    self.i += 1
                    pat = self.pattern()
                    self.eat("=")
                    scrut = self.expr(nostruct=True)
                    a = self.block()
                    self.eat_id("else")
                    b = self.block()
                    return ("iflet", pat, scrut, a, b)
                c = self.expr(nostruct=True)
                a = self.block()
                b = None
                if self.at_id("else"):
                    self.i += 1
                    b = [("tail", self.atom(False))] if self.at_id("if") else self.block()
                return ("if", c, a, b)
            if name == "match":
                self.i += 1
                scrut = self.expr(nostruct=True)
                self.eat("{")
                arms = []
                while not self.at("}"):
                    pat = self.pattern()
                    self.eat("=>")
                    if self.at("{"):
                        body = self.block()
                    else:
                        body = [self.expr_stmt(in_block=False)]
                    if self.at(","):
                        self.i += 1
                    arms.append((pat, body))
                self.eat("}")
                return ("match", scrut, arms)
            if name in ("panic!", "unreachable!", "unimplemented!", "todo!"):
                self.i += 1
                self.eat("(")
                depth = 1
                while depth:
                    if self.at("("):
                        depth += 1
                    elif self.at(")"):
                        depth -= 1
                    self.i += 1
                return ("panic",)
            # path (generic arguments in a path, `Page::<S>::f`, are skipped)
            self.i += 1
            path = [name]
            while self.at("::"):
                self.i += 1
                if self.at("<"):
                    depth = 0
                    inner = []
                    while True:
                        if self.at("<"):
                            depth += 1
                        elif self.at(">"):
                            depth -= 1
                        elif self.peek()[0] == "id":
                            inner.append(self.peek()[1])
                        self.i += 1
                        if depth == 0:
                            break
                    if path[-1] == "size_of":
                        path[-1] = "size_of<" + ",".join(inner) + ">"
                    continue
                path.append(self.eat_id())
            if self.at("("):
                return ("call", path, self.args())
            if self.at("{") and not nostruct and path[-1][0].isupper():
                self.i += 1
                fields = []
                while not self.at("}"):
                    fname = self.eat_id()
                    if self.at(":"):
                        self.i += 1
                        fields.append((fname, self.expr()))
                    else:
                        fields.append((fname, ("path", [fname])))
                    if self.at(","):
                        self.i += 1
                self.eat("}")
                return ("struct", path, fields)
            return ("path", path)
        raise ValueError(f"unexpected token {p!r}")

    def pattern(self):
        p = self.peek()
        if p[0] == "num":
            self.i += 1
            return ("plit", p[1])
        name = self.eat_id()
        path = [name]
        while self.at("::"):
            self.i += 1
            path.append(self.eat_id())
        if path == ["_"]:
            return ("pwild",)
        if self.at("("):
            self.i += 1
            inner = [self.eat_id()]
            while self.at(","):
                self.i += 1
                inner.append(self.eat_id())
            self.eat(")")
            if len(path) > 1 and path[0] in DATA_ENUMS:
                return ("pdata", path, inner)
            if len(inner) != 1:
                raise ValueError("constructor pattern with several binders")
            return ("pctor", path[-1], inner[0])
        if len(path) > 1:
            return ("ppath", path)
        return ("pctor", name, None)


# --------------------------------------------------------------------------- locating functions

def norm_ws(s):
    return re.sub(r"\s+", " ", s.strip())


def find_impl_bodies(src, impl):
    """Yield (start, end) of the bodies of every `impl <impl> {` block (cfg-gated duplicates included)."""
    out = []
    for m in re.finditer(r"^impl\b([^{;]*)\{", src, re.M):
        head = norm_ws(m.group(1))
        head = re.split(r"\bwhere\b", head)[0].strip()
        if head != impl:
            continue
        depth, e = 0, m.end() - 1
        while True:
            if src[e] == "{":
                depth += 1
            elif src[e] == "}":
                depth -= 1
                if depth == 0:
                    break
            e += 1
        out.append((m.end(), e))
    return out


def strip_comments(src):
    return re.sub(r"//[^\n]*", lambda m: " " * len(m.group(0)), src)


def find_fn(src, impl, name):
    """Return (params text, return type text, body text) of `fn name` inside `impl <impl> {` (or at top level)."""
    src = strip_comments(src)
    m = None
    if impl is None:
        m = re.search(r"^(?:pub(?:\([a-z]+\))?\s+)?(?:const\s+)?(?:unsafe\s+)?fn\s+" + re.escape(name) + r"\s*(?:<[^>]*>)?\s*\(", src, re.M)
    else:
        bodies = find_impl_bodies(src, impl)
        if not bodies:
            raise ValueError(f"impl {impl} not found")
        rx = re.compile(r"\bfn\s+" + re.escape(name) + r"\s*(?:<[^>]*>)?\s*\(")
        for (s, e) in bodies:
            m = rx.search(src, s, e)
            if m:
                break
    if not m:
        raise ValueError(f"fn {name} not found in impl {impl}")
    i = m.end() - 1
    depth, j = 0, i
    while True:
        if src[j] == "(":
            depth += 1
        elif src[j] == ")":
            depth -= 1
            if depth == 0:
                break
        j += 1
    params = src[i + 1:j]
    k = src.index("{", j)
    ret = src[j + 1:k].strip()
    ret = ret[2:].strip() if ret.startswith("->") else ""
    ret = re.split(r"\bwhere\b", ret)[0].strip()
    depth, e = 0, k
    while True:
        if src[e] == "{":
            depth += 1
        elif src[e] == "}":
            depth -= 1
            if depth == 0:
                break
        e += 1
    return params, ret, src[k:e + 1]


# --------------------------------------------------------------------------- types

class Ty:
    def __init__(self, kind, arg=None, nom=None):
        # kind: integer type name | bool | option | result | tuple | unit | never
        self.kind, self.arg, self.nom = kind, arg, nom

    def __repr__(self):
        return (self.nom + ":" if self.nom else "") + self.kind + (f"<{self.arg}>" if self.arg else "")

    def is_int(self):
        return self.kind in WIDTH

    def width(self):
        return WIDTH[self.kind]

    def lean(self):
        if self.kind in WIDTH:
            return f"BitVec {WIDTH[self.kind]}"
        if self.kind == "bool":
            return "Bool"
        if self.kind == "option":
            return f"Option ({self.arg.lean()})"
        if self.kind == "result":
            return f"Except Unit ({self.arg.lean()})"
        if self.kind == "unit":
            return "Unit"
        if self.kind == "tuple":
            return "(" + " × ".join(t.lean() for t in self.arg) + ")"
        raise ValueError(f"no Lean type for {self}")

    def same(self, o):
        """Structural equality of the erased types (nominal tags are for dispatch only)."""
        if self.kind != o.kind:
            return False
        if self.kind in ("option", "result"):
            return self.arg.same(o.arg)
        if self.kind == "tuple":
            return len(self.arg) == len(o.arg) and all(a.same(b) for a, b in zip(self.arg, o.arg))
        return True


def nominal(name):
    if name in WIDTH or name == "bool":
        return Ty(name)
    if name in NEWTYPES:
        return Ty(NEWTYPES[name], nom=name)
    if name in STRUCTS:
        return Ty("tuple", [nominal(t) for _, t in STRUCTS[name]], nom=name)
    if name in DATA_ENUMS:
        n = max(len(p) for _, p in DATA_ENUMS[name])
        return Ty("tuple", [Ty("u8")] + [Ty("u64")] * n, nom=name)
    raise ValueError(f"type {name} not in the subset")


def conv_ty(t, selfty=None, assoc=None):
    name, args = t
    if name == "()":
        if not args:
            return Ty("unit")
        return Ty("tuple", [conv_ty(a, selfty, assoc) for a in args])
    if name == "Self":
        name = selfty
    if assoc and name in assoc:        # `Self::Output`, `Self::Item`
        return assoc[name]
    if name in NEWTYPES or name in STRUCTS or name in DATA_ENUMS:
        return nominal(name)
    if name == "*ptr":       # raw pointer: its address
        return Ty("u64")
    if name in WIDTH or name == "bool":
        return Ty(name)
    if name == "U":          # `U: Into<u64>` of the alignment methods: instantiated at u64
        return Ty("u64")
    if name == "Option":
        return Ty("option", conv_ty(args[0], selfty, assoc))
    if name == "Result":
        return Ty("result", conv_ty(args[0], selfty, assoc))
    if name == "Range" and args and args[0][0] == "usize":      # `Range<usize>`: (start, end)
        return Ty("tuple", [Ty("usize"), Ty("usize")], nom="Range")
    raise ValueError(f"type {name} not in the subset")


def field_path(n, i):
    """Projection of component i of an n-tuple `a × b × c` (right-nested pairs)."""
    if n == 1:
        return ""
    s = ".2" * i
    return s + (".1" if i < n - 1 else "")



# --------------------------------------------------------------------------- `?` hoisting

PURE_METHODS = {"start_address", "as_u64", "into", "clone", "bits", "ok", "into_u64", "size"}


def children(e):
    k = e[0]
    if k in ("paren", "not", "try"):
        return [e[1]]
    if k == "cast":
        return [e[1]]
    if k == "field":
        return [e[1]]
    if k == "bin":
        return [e[2], e[3]]
    if k == "call":
        return list(e[2])
    if k == "mcall":
        return [e[1]] + list(e[3])
    if k == "tuple":
        return list(e[1])
    if k == "struct":
        return [x for _, x in e[2]]
    return []


def rebuild(e, kids):
    k = e[0]
    if k in ("paren", "not", "try"):
        return (k, kids[0])
    if k == "cast":
        return ("cast", kids[0], e[2])
    if k == "field":
        return ("field", kids[0], e[2])
    if k == "bin":
        return ("bin", e[1], kids[0], kids[1])
    if k == "call":
        return ("call", e[1], kids)
    if k == "mcall":
        return ("mcall", kids[0], e[2], kids[1:])
    if k == "tuple":
        return ("tuple", kids)
    if k == "struct":
        return ("struct", e[1], [(f, x) for (f, _), x in zip(e[2], kids)])
    return e


def has_try(e):
    return e[0] == "try" or any(has_try(c) for c in children(e))


def effectful(e):
    """May this expression panic or otherwise matter for evaluation order?"""
    k = e[0]
    if k == "call" and e[1] not in (["Some"], ["Ok"]):
        return True
    if k == "mcall" and e[2] not in PURE_METHODS:
        return True
    if k == "bin" and e[1] in ("+", "-", "*", "/", "%", "<<", ">>"):
        return True
    if k in ("if", "iflet", "match", "block", "panic"):
        return True
    return any(effectful(c) for c in children(e))


class Hoister:
    def __init__(self):
        self.n = 0

    def expr(self, e, lets):
        """Replace every `inner?` inside e (outside nested control flow) by a fresh variable bound in `lets`."""
        if e[0] in ("if", "iflet", "match", "block"):
            return e          # own statement lists are hoisted when they are translated
        kids = children(e)
        new = []
        for i, c in enumerate(kids):
            if has_try(c) and any(effectful(p) for p in new):
                raise ValueError("`?` after an effectful sibling expression: evaluation order not preserved by hoisting")
            new.append(self.expr(c, lets))
        e = rebuild(e, new)
        if e[0] == "try":
            self.n += 1
            name = f"try__{self.n}"
            lets.append(("let", name, e, None))
            return ("path", [name])
        return e

    def stmts(self, stmts):
        out = []
        for s in stmts:
            k = s[0]
            lets = []
            if k == "let":
                if s[2][0] == "try":
                    inner = self.expr(s[2][1], lets)
                    s = ("let", s[1], ("try", inner), s[3])
                else:
                    s = ("let", s[1], self.expr(s[2], lets), s[3])
            elif k in ("return", "tail", "expr;"):
                s = (k, self.expr(s[1], lets))
            elif k == "assign":
                s = ("assign", s[1], s[2], self.expr(s[3], lets))
            elif k == "assert":
                s = ("assert", self.expr(s[1], lets), s[2])
            out += lets + [s]
        return out


# --------------------------------------------------------------------------- emission

class HoistedList(list):
    hoisted = True


class Emit:
    """Translate one function body to a Lean term of type `R <ret>`."""

    def __init__(self, target, ctx):
        self.tg, self.ctx = target, ctx
        self.impl = target.owner
        self.n = 0
        self.deps = set()
        self.mut_self = False
        self.ret_ty = None       # declared return type (without the self component)
        self.hoister = Hoister()

    def fresh(self, base="v"):
        self.n += 1
        return f"{base}_{self.n}"

    def lit(self, v, ty):
        if not ty.is_int():
            raise ValueError(f"integer literal of type {ty}")
        if v >= 2 ** ty.width():
            raise ValueError(f"literal {v} does not fit {ty}")
        return f"{hex(v)}#{ty.width()}"

    # ---- S::SIZE
    def size_term(self, which=None):
        """Term for `S::SIZE` as seen from this function (`which` = a concrete size name overrides)."""
        if which is not None:
            return self.lit(self.ctx.sizes[which], Ty("u64"))
        if self.tg.generic:
            return "S_SIZE"
        if self.tg.size is not None:
            return self.lit(self.ctx.sizes[self.tg.size], Ty("u64"))
        raise ValueError("S::SIZE outside a page-size context")

    def callee_size(self, callee):
        """Extra leading argument for a generic callee."""
        if not callee.generic:
            return []
        if self.tg.call_size is not None:
            return [self.size_term(self.tg.call_size)]
        return [self.size_term()]

    # expression -> (kind, term, type): kind 'p' pure term of Lean type ty.lean(); 'm' term of type R (ty.lean())
    def ex(self, e, env, expect=None):
        k = e[0]
        if k == "paren":
            return self.ex(e[1], env, expect)
        if k == "num":
            if e[2]:
                ty = Ty(e[2])
            elif expect is not None and expect.is_int():
                ty = Ty(expect.kind)
            else:
                ty = Ty("u64")
            return ("p", self.lit(e[1], ty), ty)
        if k == "path":
            return self.path(e[1], env, expect)
        if k == "field":
            kk, t, ty = self.ex(e[1], env)
            f = e[2]
            if ty.nom in STRUCTS:
                names = [n for n, _ in STRUCTS[ty.nom]]
                if f not in names:
                    raise ValueError(f"no field {f} in {ty.nom}")
                i = names.index(f)
                proj = field_path(len(names), i)
                return self.lift1(kk, t, ty, lambda x: f"{x}{proj}", ty.arg[i])
            if ty.nom in NEWTYPES and (f == 0 or f == NEWTYPE_FIELDS.get(ty.nom)):
                inner = Ty(ty.kind)
                if ty.nom == "Page":
                    inner = nominal("VirtAddr")
                elif ty.nom == "PhysFrame":
                    inner = nominal("PhysAddr")
                return (kk, t, inner)
            if ty.kind == "tuple" and isinstance(f, int):
                proj = field_path(len(ty.arg), f)
                return self.lift1(kk, t, ty, lambda x: f"{x}{proj}", ty.arg[f])
            raise ValueError(f"field {f} of {ty}")
        if k == "tuple":
            if not e[1]:
                return ("p", "()", Ty("unit"))
            exps = expect.arg if expect is not None and expect.kind == "tuple" else [None] * len(e[1])
            parts = [self.ex(x, env, t) for x, t in zip(e[1], exps)]
            return self.bind_all(parts, lambda xs: "(" + ", ".join(xs) + ")", Ty("tuple", [p[2] for p in parts]))
        if k == "struct":
            return self.struct_lit(e, env, expect)
        if k == "not":
            kk, t, ty = self.ex(e[1], env, expect)
            if ty.kind == "bool":
                return self.lift1(kk, t, ty, lambda x: f"(!{x})", ty)
            if ty.nom in FLAG_TYPES:
                allb = self.lit(self.ctx.flag_all[ty.nom], ty)
                return self.lift1(kk, t, ty, lambda x: f"((~~~{x}) &&& {allb})", ty)
            return self.lift1(kk, t, ty, lambda x: f"(~~~{x})", ty)
        if k == "cast":
            kk, t, ty = self.ex(e[1], env)
            to = conv_ty(e[2], self.impl)
            if not ty.is_int() or not to.is_int():
                raise ValueError(f"cast {ty} as {to}")
            w1, w2 = ty.width(), to.width()
            if w1 == w2:
                f = lambda x: x
            elif ty.kind.startswith("i") and w2 > w1:
                f = lambda x: f"(({x}).signExtend {w2})"
            else:
                f = lambda x: f"(({x}).setWidth {w2})"
            return self.lift1(kk, t, ty, f, to)
        if k == "bin":
            return self.binop(e, env, expect)
        if k == "call":
            return self.call(e[1], e[2], env, expect)
        if k == "mcall":
            return self.mcall(e, env, expect)
        if k == "try":
            raise ValueError("`?` outside a `let` initialiser")
        if k == "block":
            if expect is None:
                raise ValueError("block expression needs an expected type")
            return ("m", self.block(e[1], dict(env), None, valty=expect), expect)
        if k in ("if", "iflet", "match"):
            if expect is None:
                raise ValueError(f"`{k}` expression needs an expected type")
            return ("m", self.block([("tail", e)], dict(env), None, valty=expect), expect)
        if k == "panic":
            if expect is None:
                raise ValueError("`panic!` needs an expected type")
            return ("m", "R.panic", expect)
        raise ValueError(f"expression form {k} not in the subset")

    def path(self, path, env, expect):
        if len(path) == 1 and path[0] in env:
            return ("p", env[path[0]][0], env[path[0]][1])
        if path == ["None"]:
            if expect is None or expect.kind != "option":
                raise ValueError("cannot type `None`")
            return ("p", "none", expect)
        if path == ["PhantomData"]:
            return ("p", "()", Ty("unit"))
        if len(path) == 2 and path[1] == "SIZE" and path[0] in ("S", "Self"):
            return ("p", self.size_term(), Ty("u64"))
        if len(path) == 2 and path[1] == "SIZE" and path[0] in self.ctx.sizes:
            return ("p", self.size_term(path[0]), Ty("u64"))
        if len(path) == 2 and path[1] == "MAX" and path[0] in WIDTH:
            ty = Ty(path[0])
            return ("p", f"(BitVec.allOnes {ty.width()})", ty)
        owner = self.impl if path[0] == "Self" else TYPE_ALIASES.get(path[0], path[0])
        if len(path) == 2 and owner in FLAG_TYPES and (owner, path[1]) in self.ctx.flags:
            ty = nominal(owner)
            return ("p", self.lit(self.ctx.flags[(owner, path[1])], ty), ty)
        if len(path) == 2 and owner in ENUMS and (owner, path[1]) in self.ctx.enums:
            ty = nominal(owner)
            return ("p", self.lit(self.ctx.enums[(owner, path[1])], ty), ty)
        if path[-1] in self.ctx.consts:
            term, ty = self.ctx.consts[path[-1]]
            return ("p", term, ty)
        if expect is not None and expect.kind == "result" and len(path) == 1 and path[0][0].isupper():
            raise ValueError(f"bare error value {path[0]} outside Err(..)")
        raise ValueError(f"unknown path {'::'.join(path)}")

    def struct_lit(self, e, env, expect):
        _, path, fields = e
        name = self.impl if path[-1] == "Self" else path[-1]
        fields = [(f, x) for f, x in fields if f not in IGNORED_FIELDS]
        if name in NEWTYPES:
            if len(fields) != 1:
                raise ValueError(f"struct literal of {name} with {len(fields)} fields")
            kk, t, ty = self.ex(fields[0][1], env, Ty(NEWTYPES[name]))
            if not ty.same(Ty(NEWTYPES[name])):
                raise ValueError(f"field of {name} has type {ty}")
            return (kk, t, nominal(name))
        if name in STRUCTS:
            decl = STRUCTS[name]
            got = dict(fields)
            if set(got) != {n for n, _ in decl}:
                raise ValueError(f"fields of {name}: {sorted(got)}")
            parts = []
            for n, tn in decl:
                p = self.ex(got[n], env, nominal(tn))
                if not p[2].same(nominal(tn)):
                    raise ValueError(f"field {n} of {name} has type {p[2]}")
                parts.append(p)
            ty = nominal(name)
            return self.bind_all(parts, lambda xs: "(" + ", ".join(xs) + ")", ty)
        raise ValueError(f"struct literal of {name} not in the subset")

    def lift1(self, kk, t, ty, f, rty):
        if kk == "p":
            return ("p", f(t), rty)
        v = self.fresh()
        return ("m", f"(R.bind ({t}) fun {v} => R.ok {f(v)})", rty)

    def bind_all(self, parts, build, rty, impure_result=False):
        """parts: list of (kind, term, ty); build(list of pure terms) -> term (pure, or R if impure_result)."""
        names, wraps = [], []
        for kk, t, _ in parts:
            if kk == "p":
                names.append(t)
            else:
                v = self.fresh()
                names.append(v)
                wraps.append((t, v))
        body = build(names)
        if not wraps and not impure_result:
            return ("p", body, rty)
        term = body if impure_result else f"R.ok {body}"
        for t, v in reversed(wraps):
            term = f"(R.bind ({t}) fun {v} => {term})"
        return ("m", term, rty)

    def call_target(self, tg, parts, what):
        ptys, rty = self.ctx.sigs[tg.lean]
        if len(parts) != len(ptys):
            raise ValueError(f"{what}: {len(parts)} arguments for {len(ptys)} parameters")
        for p, t in zip(parts, ptys):
            if not p[2].same(t):
                raise ValueError(f"{what}: argument type {p[2]} for parameter {t}")
        self.deps.add(tg.lean)
        extra = self.callee_size(tg)
        return self.bind_all(parts, lambda xs: f"({tg.lean} cfg " + " ".join(extra + xs) + ")", rty, impure_result=True)

    OPNAME = {"+": "add", "-": "sub", "*": "mul"}

    def binop(self, e, env, expect):
        _, op, l, r = e
        if op in ("<<", ">>"):
            lp = self.ex(l, env, expect)
            lty = lp[2]
            if not lty.is_int():
                raise ValueError(f"shift of {lty}")
            if r[0] == "num":
                if r[1] >= lty.width():
                    raise ValueError("literal shift amount not below the width")
                amt = ("p", str(r[1]), Ty("u8"))
                if op == "<<":
                    f = lambda xs: f"({xs[0]} <<< {xs[1]})"
                elif lty.kind.startswith("i"):
                    f = lambda xs: f"(({xs[0]}).sshiftRight {xs[1]})"
                else:
                    f = lambda xs: f"({xs[0]} >>> {xs[1]})"
                return self.bind_all([lp, amt], f, Ty(lty.kind))
            amt = self.ex(r, env)
            if lty.kind.startswith("i"):
                raise ValueError("signed shift by a non-literal amount not in the subset")
            fn = "Rust.shl" if op == "<<" else "Rust.shr"
            return self.bind_all([lp, amt], lambda xs: f"({fn} cfg {xs[0]} {xs[1]})", Ty(lty.kind), impure_result=True)
        if op in ("&&", "||"):
            lp = self.ex(l, env, Ty("bool"))
            rp = self.ex(r, env, Ty("bool"))
            if rp[0] != "p":
                # short-circuit: the right operand is evaluated only when needed
                v = self.fresh()
                rt = rp[1]
                if op == "&&":
                    body = lambda x: f"(bif {x} then {rt} else R.ok false)"
                else:
                    body = lambda x: f"(bif {x} then R.ok true else {rt})"
                if lp[0] == "p":
                    return ("m", body(lp[1]), Ty("bool"))
                return ("m", f"(R.bind ({lp[1]}) fun {v} => {body(v)})", Ty("bool"))
            return self.bind_all([lp, rp], lambda xs: f"({xs[0]} {op} {xs[1]})", Ty("bool"))
        # operand types: infer the non-literal side first
        cmp_ops = ("==", "!=", "<", "<=", ">", ">=")
        if l[0] == "num" and not l[2]:
            rp = self.ex(r, env, expect if op not in cmp_ops else None)
            lp = self.ex(l, env, rp[2])
        else:
            lp = self.ex(l, env, expect if op not in cmp_ops else None)
            rp = self.ex(r, env, lp[2] if not lp[2].nom or op in cmp_ops or lp[2].nom in FLAG_TYPES else None)
        ty = lp[2]
        # operator traits of nominal types
        if ty.nom and ty.nom not in FLAG_TYPES and op in self.OPNAME:
            rn = rp[2].nom or rp[2].kind
            key = f"{self.OPNAME[op]}_{rn}"
            tg = self.ctx.lookup(ty.nom, key)
            if tg is None:
                raise ValueError(f"operator {op} on {ty} with {rp[2]}: no translated impl")
            return self.call_target(tg, [lp, rp], f"{ty.nom} {op}")
        if not rp[2].same(ty):
            raise ValueError(f"operand types differ: {ty} {op} {rp[2]}")
        if op in ("==", "!="):
            f = (lambda xs: f"({xs[0]} == {xs[1]})") if op == "==" else (lambda xs: f"({xs[0]} != {xs[1]})")
            return self.bind_all([lp, rp], f, Ty("bool"))
        if op in cmp_ops:
            if not ty.is_int():
                raise ValueError(f"comparison of {ty}")
            if ty.kind.startswith("i"):
                table = {"<": "BitVec.slt {0} {1}", "<=": "BitVec.sle {0} {1}", ">": "BitVec.slt {1} {0}", ">=": "BitVec.sle {1} {0}"}
            else:
                table = {"<": "BitVec.ult {0} {1}", "<=": "BitVec.ule {0} {1}", ">": "BitVec.ult {1} {0}", ">=": "BitVec.ule {1} {0}"}
            return self.bind_all([lp, rp], lambda xs: "(" + table[op].format(xs[0], xs[1]) + ")", Ty("bool"))
        if op in ("&", "|", "^"):
            if ty.kind == "bool":
                sym = {"&": "&&", "|": "||", "^": "^^"}[op]
            else:
                sym = {"&": "&&&", "|": "|||", "^": "^^^"}[op]
            return self.bind_all([lp, rp], lambda xs: f"({xs[0]} {sym} {xs[1]})", ty)
        if not ty.is_int() or ty.nom:
            raise ValueError(f"arithmetic on {ty}")
        if ty.kind.startswith("i"):
            raise ValueError("signed arithmetic not in the subset")
        if op in ("+", "-", "*"):
            fn = {"+": "Rust.add", "-": "Rust.sub", "*": "Rust.mul"}[op]
            return self.bind_all([lp, rp], lambda xs: f"({fn} cfg {xs[0]} {xs[1]})", ty, impure_result=True)
        if op in ("%", "/"):
            fn = {"%": "Rust.rem", "/": "Rust.div"}[op]
            return self.bind_all([lp, rp], lambda xs: f"({fn} {xs[0]} {xs[1]})", ty, impure_result=True)
        raise ValueError(f"operator {op} not in the subset")

    def call(self, path, args, env, expect):
        name = path[-1]
        if path == ["Some"] or path == ["Ok"]:
            inner_expect = expect.arg if expect is not None and expect.kind in ("option", "result") else None
            a = self.ex(args[0], env, inner_expect)
            if path == ["Some"]:
                return self.bind_all([a], lambda xs: f"(some {xs[0]})", Ty("option", a[2]))
            return self.bind_all([a], lambda xs: f"(Except.ok {xs[0]})", Ty("result", a[2]))
        if path == ["Err"]:
            if expect is None or expect.kind != "result":
                raise ValueError("cannot type `Err(..)`")
            return ("p", "(Except.error ())", expect)
        if len(path) == 1 and (path[0] in NEWTYPES or path[0] == "Self") and (path[0] != "Self" or self.impl in NEWTYPES):
            nt = self.impl if path[0] == "Self" else path[0]     # tuple-struct constructor: identity
            kk, t, ty = self.ex(args[0], env, Ty(NEWTYPES[nt]))
            if not ty.same(Ty(NEWTYPES[nt])):
                raise ValueError(f"{nt}(..) applied to {ty}")
            return (kk, t, nominal(nt))
        owner = None
        if len(path) == 2:
            owner = self.impl if path[0] == "Self" else TYPE_ALIASES.get(path[0], path[0])
        if len(path) == 1 and path[0].startswith("size_of<"):
            tyname = path[0][len("size_of<"):-1]
            if tyname not in self.ctx.sizeof:
                raise ValueError(f"size_of::<{tyname}>() not known")
            return ("p", self.lit(self.ctx.sizeof[tyname], Ty("usize")), Ty("usize"))
        if owner in DATA_ENUMS and any(v == name for v, _ in DATA_ENUMS[owner]):
            variants = DATA_ENUMS[owner]
            tag = [v for v, _ in variants].index(name)
            pay = variants[tag][1]
            ety = nominal(owner)
            nslots = len(ety.arg) - 1
            if len(args) != len(pay):
                raise ValueError(f"{owner}::{name} applied to {len(args)} arguments")
            parts = [self.ex(a, env, Ty(t)) for a, t in zip(args, pay)]
            for pp, t in zip(parts, pay):
                if not pp[2].same(Ty(t)):
                    raise ValueError(f"{owner}::{name}: payload of type {pp[2]}")
            pad = [self.lit(0, Ty("u64"))] * (nslots - len(pay))
            return self.bind_all(parts, lambda xs: "(" + ", ".join([self.lit(tag, Ty("u8"))] + xs + pad) + ")", ety)
        if name == "new_unsafe" and owner in ("VirtAddr", "PhysAddr"):
            kk, t, ty = self.ex(args[0], env, Ty("u64"))
            return (kk, t, nominal(owner))
        if name == "try_from" and owner in ("u64", "usize"):
            a = self.ex(args[0], env)
            if not a[2].is_int() or a[2].width() != 64:
                raise ValueError("try_from between integers of different width not in the subset")
            return self.bind_all([a], lambda xs: f"(Except.ok {xs[0]})", Ty("result", Ty(owner)))
        if path == ["Step", "steps_between"]:
            # core's `Step for uN`: the exact distance when start <= end (it always fits `usize` here)
            a, b = self.ex(args[0], env), self.ex(args[1], env)
            if not a[2].is_int() or a[2].nom or not b[2].same(a[2]) or a[2].width() > 64 or a[2].kind.startswith("i"):
                raise ValueError("Step::steps_between on a non-integer")
            ext = (lambda x: x) if a[2].width() == 64 else (lambda x: f"(({x}).setWidth 64)")
            rty = Ty("tuple", [Ty("usize"), Ty("option", Ty("usize"))])
            return self.bind_all([a, b], lambda xs: f"(bif BitVec.ule {xs[0]} {xs[1]} then ({ext('(' + xs[1] + ' - ' + xs[0] + ')')}, some {ext('(' + xs[1] + ' - ' + xs[0] + ')')}) else (0x0#64, none))", rty)
        if name == "from" and owner in WIDTH:
            a = self.ex(args[0], env)
            to = Ty(owner)
            if not a[2].is_int() or a[2].width() > to.width() or a[2].kind.startswith("i"):
                raise ValueError(f"{owner}::from({a[2]})")
            if a[2].width() == to.width():
                return (a[0], a[1], to)
            return self.lift1(a[0], a[1], a[2], lambda x: f"(({x}).setWidth {to.width()})", to)
        if name == "from_bits_truncate" and owner in FLAG_TYPES:
            ty = nominal(owner)
            a = self.ex(args[0], env, Ty(ty.kind))
            allb = self.lit(self.ctx.flag_all[owner], ty)
            return self.lift1(a[0], a[1], a[2], lambda x: f"({x} &&& {allb})", ty)
        if name == "empty" and owner in FLAG_TYPES:
            ty = nominal(owner)
            return ("p", self.lit(0, ty), ty)
        if name == "all" and owner in FLAG_TYPES:
            ty = nominal(owner)
            return ("p", self.lit(self.ctx.flag_all[owner], ty), ty)
        tg = self.ctx.lookup(owner, name)
        if tg is None:
            raise ValueError(f"call of {'::'.join(path)}: not a translated function")
        ptys, _ = self.ctx.sigs[tg.lean]
        parts = [self.ex(a, env, t) for a, t in zip(args, ptys)]
        return self.call_target(tg, parts, "::".join(path))

    def mcall(self, e, env, expect):
        _, recv, name, args = e
        if name in ("into", "clone"):
            rp = self.ex(recv, env, expect)
            if name == "into" and expect is not None and expect.is_int() and rp[2].is_int() and rp[2].width() < expect.width():
                w = expect.width()
                return self.lift1(rp[0], rp[1], rp[2], lambda x: f"(({x}).setWidth {w})", Ty(expect.kind))
            return rp
        rp = self.ex(recv, env)
        ty = rp[2]
        if ty.nom:
            tg = self.ctx.lookup(ty.nom, name)
            if tg is not None:
                ptys, _ = self.ctx.sigs[tg.lean]
                parts = [rp] + [self.ex(a, env, t) for a, t in zip(args, ptys[1:])]
                if tg.mut_self:
                    raise ValueError(f"`&mut self` method {name} in expression position")
                return self.call_target(tg, parts, f"{ty.nom}::{name}")
        if ty.nom in FLAG_TYPES:
            if name == "bits":
                return (rp[0], rp[1], Ty(ty.kind))
            if name == "contains":
                a = self.ex(args[0], env, ty)
                return self.bind_all([rp, a], lambda xs: f"(({xs[0]} &&& {xs[1]}) == {xs[1]})", Ty("bool"))
            if name == "intersects":
                a = self.ex(args[0], env, ty)
                return self.bind_all([rp, a], lambda xs: f"(({xs[0]} &&& {xs[1]}) != {self.lit(0, ty)})", Ty("bool"))
            if name == "is_empty":
                return self.bind_all([rp], lambda xs: f"({xs[0]} == {self.lit(0, ty)})", Ty("bool"))
            if name == "union":
                a = self.ex(args[0], env, ty)
                return self.bind_all([rp, a], lambda xs: f"({xs[0]} ||| {xs[1]})", ty)
        if name == "as_u64" and ty.nom in ("VirtAddr", "PhysAddr"):
            tg = self.ctx.lookup(ty.nom, "as_u64")
            if tg is None:
                return (rp[0], rp[1], Ty("u64"))
        if name in ("checked_add", "checked_sub", "checked_mul") and ty.is_int() and not ty.nom:
            a = self.ex(args[0], env, ty)
            fn = {"checked_add": "Rust.checkedAdd", "checked_sub": "Rust.checkedSub", "checked_mul": "Rust.checkedMul"}[name]
            return self.bind_all([rp, a], lambda xs: f"({fn} {xs[0]} {xs[1]})", Ty("option", ty))
        if name in ("wrapping_add", "wrapping_sub", "wrapping_mul") and ty.is_int() and not ty.nom:
            a = self.ex(args[0], env, ty)
            sym = {"wrapping_add": "+", "wrapping_sub": "-", "wrapping_mul": "*"}[name]
            return self.bind_all([rp, a], lambda xs: f"({xs[0]} {sym} {xs[1]})", ty)
        if name == "is_power_of_two" and ty.is_int():
            return self.bind_all([rp], lambda xs: f"(Rust.isPowerOfTwo {xs[0]})", Ty("bool"))
        if name == "get_bits" and ty.is_int():
            rg = args[0]
            if rg[0] != "range":
                # a `Range<usize>` computed at run time: bit_field's assertions become part of the term
                a = self.ex(rg, env, Ty("tuple", [Ty("usize"), Ty("usize")]))
                if not (a[2].kind == "tuple" and len(a[2].arg) == 2 and all(t.kind == "usize" for t in a[2].arg)):
                    raise ValueError("get_bits with a range that is not a Range<usize>")
                return self.bind_all([rp, a], lambda xs: f"(Rust.getBitsDyn {xs[0]} {xs[1]}.1 {xs[1]}.2)", Ty(ty.kind),
                                     impure_result=True)
            lo, hi = rg[1], rg[2] if rg[2] is not None else ty.width()
            if not (lo < hi <= ty.width()):
                raise ValueError("get_bits range outside the word")
            return self.bind_all([rp], lambda xs: f"(Rust.getBits {xs[0]} {lo} {hi})", Ty(ty.kind))
        if name == "get_bit" and ty.is_int():
            if args[0][0] != "num" or args[0][1] >= ty.width():
                raise ValueError("get_bit with a non-literal index")
            return self.bind_all([rp], lambda xs: f"(Rust.getBit {xs[0]} {args[0][1]})", Ty("bool"))
        if name in ("unwrap", "expect"):
            if ty.kind == "option":
                return self.bind_all([rp], lambda xs: f"(Rust.unwrap {xs[0]})", ty.arg, impure_result=True)
            if ty.kind == "result":
                return self.bind_all([rp], lambda xs: f"(Rust.onRes {xs[0]} (fun v => R.ok v) R.panic)", ty.arg, impure_result=True)
            raise ValueError("unwrap on non-Option")
        if name == "ok" and ty.kind == "result":
            return self.bind_all([rp], lambda xs: f"(Rust.onRes {xs[0]} (fun v => some v) none)", Ty("option", ty.arg))
        if name == "unwrap_or" and ty.kind == "option":
            a = self.ex(args[0], env, ty.arg)
            return self.bind_all([rp, a], lambda xs: f"(Rust.onOpt {xs[0]} (fun v => v) {xs[1]})", ty.arg)
        if name == "then" and ty.kind == "bool" and args and args[0][0] == "closure0":
            inner_expect = expect.arg if expect is not None and expect.kind == "option" else None
            a = self.ex(args[0][1], env, inner_expect)
            rty = Ty("option", a[2])
            yes = f"R.ok (some {a[1]})" if a[0] == "p" else f"(R.bind ({a[1]}) fun v => R.ok (some v))"
            return self.bind_all([rp], lambda xs: f"(bif {xs[0]} then {yes} else R.ok none)", rty, impure_result=True)
        if name == "is_some" and ty.kind == "option":
            return self.bind_all([rp], lambda xs: f"(({xs[0]}).isSome)", Ty("bool"))
        if name == "is_none" and ty.kind == "option":
            return self.bind_all([rp], lambda xs: f"(!({xs[0]}).isSome)", Ty("bool"))
        raise ValueError(f"method {name} on {ty} not in the subset")

    # ---- blocks: statements + continuation; the term built has type R (function result)
    def finish(self, kk, t, env):
        """Value of the function: pair it with the final `self` for `&mut self` methods."""
        if not self.mut_self:
            return f"(R.ok {t})" if kk == "p" else t
        s = env["self"][0]
        if kk == "p":
            return f"(R.ok ({t}, {s}))"
        v = self.fresh()
        return f"(R.bind ({t}) fun {v} => R.ok ({v}, {s}))"

    def ret(self, e, env, rty):
        kk, t, ty = self.ex(e, env, rty)
        if not ty.same(rty):
            raise ValueError(f"returned {ty}, function returns {rty}")
        return self.finish(kk, t, env)

    def block(self, stmts, env, rest, valty=None):
        """rest: None, or a function env -> term for the statements following this block.
        valty: when set, the block is an expression of that type inside a larger term (no `self` pairing)."""
        if valty is not None:
            saved = (self.mut_self, self.ret_ty)
            self.mut_self, self.ret_ty = False, valty
            try:
                return self.block(stmts, env, rest)
            finally:
                self.mut_self, self.ret_ty = saved
        rty = self.ret_ty
        if stmts and not getattr(stmts, "hoisted", False):
            stmts = HoistedList(self.hoister.stmts(stmts))
        if not stmts:
            if rest is None:
                if rty.kind == "unit":
                    return self.finish("p", "()", env)
                raise ValueError("block without value")
            return rest(env)
        s, tail = stmts[0], HoistedList(stmts[1:])
        cont = lambda env2: self.block(tail, env2, rest)
        k = s[0]
        if k == "let":
            _, name, e, dty = s
            want = conv_ty(dty, self.impl) if dty else None
            if e[0] == "try":
                kk, t, ty = self.ex(e[1], env)
                v = name + "_" + str(self.n + 1)
                self.n += 1
                if ty.kind == "option" and rty.kind == "option":
                    env2 = dict(env)
                    env2[name] = (v, ty.arg)
                    inner = f"Rust.onOpt {{0}} (fun {v} =>\n  {cont(env2)}) ({self.finish('p', 'none', env)})"
                    if kk == "p":
                        return "(" + inner.format(t) + ")"
                    w = self.fresh()
                    return f"(R.bind ({t}) fun {w} => " + inner.format(w) + ")"
                raise ValueError("`?` outside Option-returning function")
            if want is None and e[0] in ("match", "if", "iflet"):
                want = self.infer(e, env)
            kk, t, ty = self.ex(e, env, want)
            if want is not None and not ty.same(want):
                raise ValueError(f"let {name}: {want} = <{ty}>")
            if want is not None and want.nom and not ty.nom:
                ty = want
            v = name + "_" + str(self.n + 1)
            self.n += 1
            env2 = dict(env)
            env2[name] = (v, ty)
            if kk == "p":
                return f"(let {v} := {t}\n  {cont(env2)})"
            return f"(R.bind ({t}) fun {v} =>\n  {cont(env2)})"
        if k == "assign":
            return self.assign(s, env, cont)
        if k == "assert":
            if s[2]:
                # debug_assert!: checked only in builds with debug assertions = the overflow-check profile here
                kk, t, ty = self.ex(s[1], env, Ty("bool"))
                if kk != "p":
                    raise ValueError("impure debug_assert condition")
                return f"(bif cfg.ovf && !({t}) then R.panic else {cont(env)})"
            kk, t, ty = self.ex(s[1], env, Ty("bool"))
            if kk != "p":
                v = self.fresh()
                return f"(R.bind ({t}) fun {v} => bif {v} then {cont(env)} else R.panic)"
            return f"(bif {t} then {cont(env)} else R.panic)"
        if k == "return":
            return self.ret(s[1], env, rty)
        if k == "tail":
            e = s[1]
            if tail:
                raise ValueError("statements after a tail expression")
            if e[0] in ("if", "iflet", "match", "block"):
                return self.control(e, env, rest, value=True)
            if self.is_mut_call(e, env):
                # `x.method(..)` of a translated `&mut self` method as the value of the block
                def after(env2):
                    vt, vty = self.last_call_value
                    if rest is not None:
                        return rest(env2)
                    if not vty.same(rty):
                        raise ValueError(f"returned {vty}, function returns {rty}")
                    return self.finish("p", vt, env2)
                return self.mut_call(e, env, after)
            if rest is not None:
                raise ValueError("value in statement position")
            return self.ret(e, env, rty)
        if k == "expr;":
            e = s[1]
            if e[0] == "mcall" and e[2] in ("set_bits", "set_bit"):
                return self.set_bits(e, env, cont)
            if e[0] == "mcall":
                return self.mut_call(e, env, cont)
            if e[0] in ("if", "iflet", "match", "block"):
                return self.control(e, env, cont, value=False)
            raise ValueError(f"expression statement {e[0]} not in the subset")
        raise ValueError(f"statement {k} not in the subset")

    def infer(self, e, env):
        """Type of a `match`/`if` expression used as an initialiser: the type of its first value-producing branch."""
        def tail_ty(stmts, env2):
            if not stmts or stmts[-1][0] != "tail" or len(stmts) != 1:
                raise ValueError("cannot infer the type of a branch with statements")
            x = stmts[-1][1]
            if x[0] in ("match", "if", "iflet"):
                return self.infer(x, env2)
            if x[0] == "panic":
                return None
            saved = self.n
            try:
                return self.ex(x, env2)[2]
            finally:
                self.n = saved
        if e[0] == "if":
            return tail_ty(e[2], env) or (tail_ty(e[3], env) if e[3] else None)
        if e[0] == "match":
            sty = self.ex(e[1], env)[2]
            for pat, body in e[2]:
                env2 = dict(env)
                if pat[0] == "pdata" and sty.nom in DATA_ENUMS:
                    variants = DATA_ENUMS[sty.nom]
                    pay = dict(variants)[pat[1][-1]]
                    for j, b in enumerate(pat[2]):
                        if b != "_":
                            env2[b] = ("_", Ty(pay[j]))
                elif pat[0] == "pctor" and pat[2] not in (None, "_") and sty.kind in ("option", "result"):
                    env2[pat[2]] = ("_", sty.arg)
                t = tail_ty(body, env2)
                if t is not None:
                    return t
        raise ValueError("cannot infer the type of the initialiser")

    def lvalue(self, lhs, env):
        """-> (variable name, [field names])."""
        fields = []
        while lhs[0] in ("field", "paren"):
            if lhs[0] == "field":
                fields.insert(0, lhs[2])
            lhs = lhs[1]
        if lhs[0] != "path" or len(lhs[1]) != 1 or lhs[1][0] not in env:
            raise ValueError("assignment to a non-variable")
        return lhs[1][0], fields

    def store(self, name, fields, newval, env):
        """Lean term of the variable `name` after `name.fields = newval`, and its type."""
        cur, ty = env[name]
        if not fields:
            return newval, ty
        if len(fields) == 1:
            f = fields[0]
            if ty.nom in NEWTYPES and (f == 0 or f == NEWTYPE_FIELDS.get(ty.nom)):
                return newval, ty
            if ty.nom in STRUCTS:
                names = [n for n, _ in STRUCTS[ty.nom]]
                i = names.index(f)
                comps = [newval if j == i else f"{cur}{field_path(len(names), j)}" for j in range(len(names))]
                return "(" + ", ".join(comps) + ")", ty
        raise ValueError(f"assignment to field path {fields} of {ty}")

    def load_ty(self, name, fields, env):
        cur, ty = env[name]
        for f in fields:
            if ty.nom in NEWTYPES and (f == 0 or f == NEWTYPE_FIELDS.get(ty.nom)):
                ty = Ty(ty.kind) if ty.nom not in ("Page", "PhysFrame") else nominal("VirtAddr" if ty.nom == "Page" else "PhysAddr")
            elif ty.nom in STRUCTS:
                names = [n for n, _ in STRUCTS[ty.nom]]
                ty = ty.arg[names.index(f)]
            else:
                raise ValueError(f"field {f} of {ty}")
        return ty

    def assign(self, s, env, cont):
        _, lhs, op, rhs = s
        name, fields = self.lvalue(lhs, env)
        fty = self.load_ty(name, fields, env)
        if op == "":
            kk, t, ty = self.ex(rhs, env, fty)
            if not ty.same(fty):
                raise ValueError(f"assignment of {ty} to {fty}")
        elif fty.nom and fty.nom not in FLAG_TYPES:
            # `x += e` on a nominal type: the translated `*_assign` impl, which returns ((), x')
            rp = self.ex(rhs, env)
            rn = rp[2].nom or rp[2].kind
            opn = {"+": "add_assign", "-": "sub_assign"}.get(op)
            tg = self.ctx.lookup(fty.nom, f"{opn}_{rn}") if opn else None
            if tg is None:
                raise ValueError(f"operator {op}= on {fty}: no translated impl")
            lp = self.ex(lhs, env)
            kk, t, ty = self.call_target(tg, [lp, rp], f"{fty.nom} {op}=")
            kk, t, ty = self.lift1(kk, t, ty, lambda x: f"{x}.2", fty)
        else:
            kk, t, ty = self.ex(("bin", op, lhs, rhs), env, fty)
        v = name + "_" + str(self.n + 1)
        self.n += 1
        env2 = dict(env)
        if kk == "p":
            newterm, vty = self.store(name, fields, t, env)
            env2[name] = (v, vty)
            return f"(let {v} := {newterm}\n  {cont(env2)})"
        w = self.fresh()
        newterm, vty = self.store(name, fields, w, env)
        env2[name] = (v, vty)
        return f"(R.bind ({t}) fun {w} =>\n  let {v} := {newterm}\n  {cont(env2)})"

    def set_bits(self, e, env, cont):
        recv = e[1]
        name, fields = self.lvalue(recv, env)
        fty = self.load_ty(name, fields, env)
        if not fty.is_int():
            raise ValueError("set_bits on a non-integer")
        cur = self.ex(recv, env)
        if cur[0] != "p":
            raise ValueError("impure set_bits receiver")
        if e[2] == "set_bit":
            idx = e[3][0]
            if idx[0] != "num" or idx[1] >= fty.width():
                raise ValueError("set_bit with a non-literal index")
            kk, t, _ = self.ex(e[3][1], env, Ty("bool"))
            if kk != "p":
                raise ValueError("impure set_bit value")
            newval = f"(Rust.setBit {cur[1]} {idx[1]} {t})"
            v = name + "_" + str(self.n + 1)
            self.n += 1
            newterm, vty = self.store(name, fields, newval, env)
            env2 = dict(env)
            env2[name] = (v, vty)
            return f"(let {v} := {newterm}\n  {cont(env2)})"
        rg = e[3][0]
        setter, wrap_range = None, None
        if rg[0] != "range":
            # a `Range<usize>` computed at run time
            rk, rt, rty = self.ex(rg, env, Ty("tuple", [Ty("usize"), Ty("usize")]))
            if not (rty.kind == "tuple" and len(rty.arg) == 2 and all(x.kind == "usize" for x in rty.arg)):
                raise ValueError("set_bits with a range that is not a Range<usize>")
            if rk != "p":
                rv = self.fresh()
                wrap_range = (rt, rv)
                rt = rv
            setter = f"Rust.setBitsDyn {cur[1]} {rt}.1 {rt}.2"
        else:
            lo, hi = rg[1], rg[2] if rg[2] is not None else fty.width()
            if not (lo < hi <= fty.width()):
                raise ValueError("set_bits range outside the word")
            setter = f"Rust.setBits {cur[1]} {lo} {hi}"
        kk, t, vt = self.ex(e[3][1], env, Ty(fty.kind))
        if not vt.same(Ty(fty.kind)):
            raise ValueError(f"set_bits value of type {vt}")
        w = self.fresh()
        v = name + "_" + str(self.n + 1)
        self.n += 1
        newterm, vty = self.store(name, fields, w, env)
        env2 = dict(env)
        env2[name] = (v, vty)
        inner = f"(R.bind ({setter} {{0}}) fun {w} =>\n  let {v} := {newterm}\n  {cont(env2)})"
        if kk == "p":
            res = inner.format(t)
        else:
            u = self.fresh()
            res = f"(R.bind ({t}) fun {u} => " + inner.format(u) + ")"
        if wrap_range is not None:      # the range expression is evaluated first (argument order)
            res = f"(R.bind ({wrap_range[0]}) fun {wrap_range[1]} => {res})"
        return res

    def mut_call(self, e, env, cont):
        """`x.method(args);` for a translated `&mut self` method: rebinds `x`."""
        _, recv, name, args = e
        vname, fields = self.lvalue(recv, env)
        fty = self.load_ty(vname, fields, env)
        tg = self.ctx.lookup(fty.nom, name) if fty.nom else None
        if tg is None or not tg.mut_self:
            raise ValueError(f"statement call of {name} on {fty}: not a translated `&mut self` method")
        ptys, _ = self.ctx.sigs[tg.lean]
        parts = [self.ex(recv, env)] + [self.ex(a, env, t) for a, t in zip(args, ptys[1:])]
        kk, t, ty = self.call_target(tg, parts, f"{fty.nom}::{name}")
        w = self.fresh()
        v = vname + "_" + str(self.n + 1)
        self.n += 1
        newterm, vty = self.store(vname, fields, f"{w}.2", env)
        env2 = dict(env)
        env2[vname] = (v, vty)
        self.last_call_value = (f"{w}.1", ty.arg[0])
        return f"(R.bind ({t}) fun {w} =>\n  let {v} := {newterm}\n  {cont(env2)})"

    def is_mut_call(self, e, env):
        if e[0] != "mcall":
            return False
        try:
            vname, fields = self.lvalue(e[1], env)
            fty = self.load_ty(vname, fields, env)
        except ValueError:
            return False
        tg = self.ctx.lookup(fty.nom, e[2]) if fty.nom else None
        return tg is not None and tg.mut_self

    def control(self, e, env, cont, value):
        """if / if let / match / block, either as the value of the enclosing block (cont None) or as a statement
        followed by `cont` (the continuation is duplicated into every branch)."""
        rest = (lambda env2: cont(env2)) if cont is not None else None
        if not value and rest is None:
            raise ValueError("statement without continuation")
        k = e[0]
        if k == "block":
            return self.block(e[1], dict(env), rest)
        if k == "if":
            kk, c, cty = self.ex(e[1], env, Ty("bool"))
            if cty.kind != "bool":
                raise ValueError("`if` condition is not a bool")
            a = self.block(e[2], dict(env), rest)
            if e[3] is None:
                if rest is None:
                    if self.ret_ty.kind != "unit":
                        raise ValueError("`if` without else as a value")
                    b = self.finish("p", "()", env)
                else:
                    b = rest(env)
            else:
                b = self.block(e[3], dict(env), rest)
            if kk == "p":
                return f"(bif {c} then {a} else {b})"
            v = self.fresh()
            return f"(R.bind ({c}) fun {v} => bif {v} then {a} else {b})"
        if k == "iflet":
            _, pat, scrut, a, b = e
            kk, t, ty = self.ex(scrut, env)
            if pat[0] != "pctor" or pat[1] != "Some" or ty.kind != "option":
                raise ValueError("if let pattern not in the subset")
            v = pat[2] + "_" + str(self.n + 1)
            self.n += 1
            env2 = dict(env)
            env2[pat[2]] = (v, ty.arg)
            ta = self.block(a, env2, rest)
            tb = self.block(b, dict(env), rest)
            body = "Rust.onOpt {0} (fun " + v + " =>\n  " + ta + ")\n  " + tb
            if kk == "p":
                return "(" + body.format(t) + ")"
            w = self.fresh()
            return f"(R.bind ({t}) fun {w} => " + body.format(w) + ")"
        if k == "match":
            _, scrut, arms = e
            kk, t, ty = self.ex(scrut, env)
            sv = self.fresh("scrut")
            if ty.is_int():
                out, default = [], None
                for pat, body in arms:
                    if pat[0] == "plit":
                        out.append((self.lit(pat[1], ty), self.block(body, dict(env), rest)))
                    elif pat[0] == "ppath" and ty.nom in ENUMS:
                        owner = self.impl if pat[1][0] == "Self" else pat[1][0]
                        if (owner, pat[1][-1]) not in self.ctx.enums:
                            raise ValueError(f"unknown enum variant {'::'.join(pat[1])}")
                        out.append((self.lit(self.ctx.enums[(owner, pat[1][-1])], ty), self.block(body, dict(env), rest)))
                    elif pat[0] == "pwild":
                        default = self.block(body, dict(env), rest)
                    else:
                        raise ValueError("match pattern not in the subset")
                if default is None:
                    if ty.nom in ENUMS:
                        variants = {v for (o, _), v in self.ctx.enums.items() if o == ty.nom}
                        if {int(l.split('#')[0], 16) for l, _ in out} != variants:
                            raise ValueError("enum match is not exhaustive")
                        default = out[-1][1]        # exhaustive: the last arm is the default
                        out = out[:-1]
                    else:
                        raise ValueError("integer match without `_` arm")
                term = default
                for litv, body in reversed(out):
                    term = f"(bif {sv} == {litv} then {body}\n  else {term})"
            elif ty.nom in DATA_ENUMS:
                variants = DATA_ENUMS[ty.nom]
                nslots = len(ty.arg) - 1
                branches, default = [], None
                for pat, body in arms:
                    if pat[0] == "pwild":
                        default = self.block(body, dict(env), rest)
                        continue
                    if pat[0] != "pdata" or TYPE_ALIASES.get(pat[1][0], pat[1][0]) != ty.nom:
                        raise ValueError("match pattern not in the subset")
                    vname = pat[1][-1]
                    tag = [v for v, _ in variants].index(vname)
                    pay = variants[tag][1]
                    if len(pat[2]) != len(pay):
                        raise ValueError(f"pattern {vname} with {len(pat[2])} binders")
                    env2 = dict(env)
                    for j, b in enumerate(pat[2]):
                        if b != "_":
                            env2[b] = (f"{sv}{field_path(nslots + 1, j + 1)}", Ty(pay[j]))
                    branches.append((tag, self.block(body, env2, rest)))
                if default is None:
                    if {t for t, _ in branches} != set(range(len(variants))):
                        raise ValueError("enum match is not exhaustive")
                    default = branches[-1][1]
                    branches = branches[:-1]
                term = default
                tagproj = field_path(nslots + 1, 0)
                for tag, body in reversed(branches):
                    term = f"(bif {sv}{tagproj} == {self.lit(tag, Ty('u8'))} then {body}\n  else {term})"
            elif ty.kind in ("option", "result"):
                yes, no = None, None
                for pat, body in arms:
                    if pat[0] == "pwild":
                        if no is None:
                            no = self.block(body, dict(env), rest)
                        continue
                    if pat[0] != "pctor" or pat[1] not in ("Some", "None", "Ok", "Err"):
                        raise ValueError("match pattern not in the subset")
                    env2 = dict(env)
                    if pat[1] in ("Some", "Ok"):
                        if yes is not None:
                            continue
                        binder = "_"
                        if pat[2] is not None and pat[2] != "_":
                            binder = pat[2] + "_" + str(self.n + 1)
                            self.n += 1
                            env2[pat[2]] = (binder, ty.arg)
                        yes = f"(fun {binder} =>\n  {self.block(body, env2, rest)})"
                    else:
                        if no is None:
                            no = self.block(body, env2, rest)
                if yes is None or no is None:
                    raise ValueError("match on Option/Result needs both alternatives")
                comb = "Rust.onOpt" if ty.kind == "option" else "Rust.onRes"
                term = f"({comb} {sv} {yes}\n  {no})"
            else:
                raise ValueError(f"match on {ty}")
            if kk == "p":
                return f"(let {sv} := {t}\n  {term})"
            return f"(R.bind ({t}) fun {sv} =>\n  {term})"
        raise ValueError(k)


# --------------------------------------------------------------------------- driver

class Ctx:
    def __init__(self):
        self.sigs = {}      # lean name -> ([param Ty], ret Ty incl. self component)
        self.by_key = {}    # (owner, key) -> target
        self.consts, self.flags, self.enums, self.sizes, self.flag_all = {}, {}, {}, {}, {}
        self.sizeof = {}

    def lookup(self, owner, key):
        return self.by_key.get((owner, key))


def parse_params(params, impl):
    out, mut_self = [], False
    depth, cur, pieces = 0, "", []
    for ch in params:
        if ch in "<(":
            depth += 1
        elif ch in ">)":
            depth -= 1
        if ch == "," and depth == 0:
            pieces.append(cur)
            cur = ""
        else:
            cur += ch
    pieces.append(cur)
    for piece in [p.strip() for p in pieces if p.strip()]:
        if piece in ("self", "&self", "&mut self", "mut self"):
            out.append(("self", nominal(impl)))
            mut_self = mut_self or piece == "&mut self"
            continue
        name, ty = piece.split(":", 1)
        name = name.replace("mut ", "").strip()
        out.append((name, conv_ty(P(tokenize(ty)).ty(), impl)))
    return out, mut_self


def generate(repo, outdir):
    srcs = {}
    ctx = Ctx()
    ex = gen_consts.extract(repo)
    for (tyname, cname), d in ex.defs.items():
        if tyname in FLAG_TYPES and d.kind != "assoc":
            ctx.flags[(tyname, cname)] = d.value
            ctx.flag_all[tyname] = ctx.flag_all.get(tyname, 0) | d.value
        if tyname in ENUMS:
            ctx.enums[(tyname, cname)] = d.value
        if cname == "SIZE" and tyname.startswith("Size"):
            ctx.sizes[tyname] = d.value
    # size_of::<TaskStateSegment>(): sum of the field sizes of the `repr(C, packed(4))` struct
    try:
        tss_src = open(os.path.join(repo, TSS)).read()
        m = re.search(r"#\[repr\(C, packed\(4\)\)\]\s*pub struct TaskStateSegment\s*\{(.*?)\n\}", tss_src, re.S)
        total = 0
        for fm in re.finditer(r"^\s*(?:pub\s+)?\w+\s*:\s*([^,\n]+),", strip_comments(m.group(1)), re.M):
            t = fm.group(1).strip()
            am = re.match(r"\[(\w+);\s*(\d+)\]", t)
            base, cnt = (am.group(1), int(am.group(2))) if am else (t, 1)
            size = {"u8": 1, "u16": 2, "u32": 4, "u64": 8, "VirtAddr": 8, "PhysAddr": 8}[base]
            if size > 4 and total % 4 != 0 or size <= 4 and total % size != 0:
                raise ValueError("padding needed")
            total += size * cnt
        ctx.sizeof["TaskStateSegment"] = total
    except Exception:       # noqa: BLE001  (the functions that need it become untranslated)
        pass
    parsed = []
    missing = {}
    for tg in TARGETS:
        if tg.file not in srcs:
            srcs[tg.file] = open(os.path.join(repo, tg.file)).read()
        try:
            params, ret, body = find_fn(srcs[tg.file], tg.impl, tg.fn)
            ps, mut_self = parse_params(params, tg.owner)
            assoc = {}
            if tg.impl and " for " in tg.impl:
                # associated types of operator / iterator traits as declared in the impl
                for (s, e) in find_impl_bodies(strip_comments(srcs[tg.file]), tg.impl):
                    for m in re.finditer(r"type\s+(\w+)\s*=\s*([^;]+);", srcs[tg.file][s:e]):
                        try:
                            assoc[m.group(1)] = conv_ty(P(tokenize(m.group(2))).ty(), tg.owner)
                        except ValueError:
                            pass        # e.g. `type Error = ...`: error payloads are erased
            rty = conv_ty(P(tokenize(ret)).ty(), tg.owner, assoc) if ret else Ty("unit")
        except (ValueError, KeyError, IndexError) as exn:
            missing[tg.lean] = f"{tg.file}: {tg.impl or ''} fn {tg.fn}: {exn}"
            continue
        tg.mut_self = mut_self
        full = Ty("tuple", [rty, nominal(tg.owner)]) if mut_self else rty
        ctx.sigs[tg.lean] = ([t for _, t in ps], full)
        if (tg.owner, tg.key) in ctx.by_key:
            raise ValueError(f"duplicate target key {(tg.owner, tg.key)}")
        ctx.by_key[(tg.owner, tg.key)] = tg
        parsed.append((tg, ps, rty, full, body))
    m = re.search(r"const\s+ADDRESS_SPACE_SIZE\s*:\s*u64\s*=\s*([^;]+);", srcs[ADDR])
    if not m:
        raise ValueError("ADDRESS_SPACE_SIZE not found")
    ctx.consts["ADDRESS_SPACE_SIZE"] = (hex(int(m.group(1).replace("_", ""), 0)) + "#64", Ty("u64"))
    m = re.search(r"const\s+ENTRY_COUNT\s*:\s*usize\s*=\s*([^;]+);", srcs[PT])
    if not m:
        raise ValueError("ENTRY_COUNT not found")
    ctx.consts["ENTRY_COUNT"] = (hex(int(m.group(1).replace("_", ""), 0)) + "#64", Ty("usize"))
    lines = ["/-", "GENERATED by translator/gen_fns.py from the Rust source of /repo — do not edit. Rewritten on every run.",
             "One definition per translated function, over the fixed-width semantics of `X86Model/Base/Rust.lean`.",
             "A type parameter `S: PageSize` is the explicit argument `S_SIZE` (= `S::SIZE`).", "-/",
             "import X86Model.Base.Rust", "", "set_option linter.unusedVariables false", "", "namespace X86.Generated.Src", "open X86", ""]
    defs = {}
    sig_text = {}
    failed = dict(missing)   # lean name -> reason (outside the subset, or calls a function that is)
    for tg, ps, rty, full, body in parsed:
        em = Emit(tg, ctx)
        em.mut_self, em.ret_ty = tg.mut_self, rty
        env = {}
        binders = ["(S_SIZE : BitVec 64)"] if tg.generic else []
        for name, ty in ps:
            env[name] = (name + "_0", ty)
            binders.append(f"({name}_0 : {ty.lean()})")
        try:
            stmts = P(tokenize(body)).block()
            term = em.block(stmts, env, None)
        except (ValueError, KeyError, IndexError) as exn:
            failed[tg.lean] = f"{tg.file}: {tg.impl or ''} fn {tg.fn}: {exn}"
            continue
        head = f"`{tg.impl + ' :: ' if tg.impl else ''}{tg.fn}` ({tg.file})"
        sig_text[tg.lean] = "(cfg : Cfg) " + " ".join(binders) + f" : R ({full.lean()})"
        text = [f"/-- {head} -/",
                f"def {tg.lean} {sig_text[tg.lean]} :=",
                "  " + term, ""]
        defs[tg.lean] = (text, em.deps)
    # a function that calls an untranslated one is untranslated too
    changed = True
    while changed:
        changed = False
        for k in list(defs):
            bad = [d for d in defs[k][1] if d in failed]
            if bad:
                failed[k] = f"calls {bad[0]}, which could not be translated"
                del defs[k]
                changed = True
    # stubs for the functions that could not be translated (signature from the last complete translation)
    try:
        known_sigs = json.load(open(SIGS_PATH))
    except Exception:       # noqa: BLE001
        known_sigs = {}
    for k in sorted(failed):
        if k in known_sigs:
            defs[k] = ([f"/-- NOT TRANSLATED from the current source ({failed[k]}); stub so that references elaborate. -/",
                        f"def {k} {known_sigs[k]} :=", "  R.panic", ""], set())
    # callees first (the source has no recursion among the translated functions; a cycle raises)
    done, order = set(), []

    def visit(key, stack):
        if key in done:
            return
        if key in stack:
            raise ValueError(f"recursion among translated functions at {key}")
        for d in sorted(defs[key][1]):
            visit(d, stack + [key])
        done.add(key)
        order.append(key)

    for tg, *_ in parsed:
        if tg.lean in defs:
            visit(tg.lean, [])
    for k in sorted(defs):          # stubs of functions that were not even found
        visit(k, [])
    for key in order:
        lines += defs[key][0]
    lines += ["/-- Unfold every translated function (used by the tie proofs, `Properties/SrcTie.lean`). -/",
              "macro \"src_unfold\" : tactic => `(tactic| simp only [" + ", ".join(k for k in order) + "] at *)", "",
              "/-- Names of the translated functions (evidence). -/",
              "def translated : List String := [" + ", ".join('"' + k + '"' for k in order if k not in failed) + "]", "",
              "/-- Functions of the target list that are outside the translator's subset in the current source. -/",
              "def untranslated : List String := [" + ", ".join('"' + k + '"' for k in sorted(failed)) + "]", "",
              "end X86.Generated.Src", ""]
    path = os.path.join(outdir, "SrcFns.lean")
    write_if_changed(path, "\n".join(lines))
    if not failed:
        # remember the signatures: when a function later leaves the subset a stub with the same signature keeps
        # everything that refers to it (driver, tie theorems) elaborating
        sigs_now = {k: sig_text[k] for k in order}
        write_if_changed(SIGS_PATH, json.dumps(sigs_now, indent=1, sort_keys=True) + "\n")
    for k in sorted(failed):
        print(f"gen_fns: UNTRANSLATED {k}: {failed[k]}")
    return [path]


if __name__ == "__main__":
    out = generate(sys.argv[1] if len(sys.argv) > 1 else "/repo", sys.argv[2] if len(sys.argv) > 2 else "/tmp")
    print(open(out[0]).read())
