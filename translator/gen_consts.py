#!/usr/bin/env python3
"""Translator for named constants: /repo/src/**/*.rs  ->  lean/X86Model/Generated/Consts.lean
(+ harness/src/c19_consts.rs, the same list as Rust expressions over the *compiled* crate, which the
correspondence harness uses to validate this extractor on every run).

Pure text-level extraction with a small Rust tokenizer (no rustc). What is extracted:

  * every `bitflags! { [pub] struct T: uN { const NAME = <expr>; ... } }`    -> (T, NAME, value)
  * every associated constant of an `impl` block whose declared type is an integer type, `Self`
    /`T` of a bitflags type (the `DescriptorFlags` presets), `Msr` (`Msr(0x..)` / `Msr::new(0x..)`)
    or an array of those / of enum variants (`Pat::DEFAULT`)             -> (T, NAME, value)
    arrays additionally give (T, NAME_<i>, value_i) and (T, NAME_PACKED, sum value_i << (8*i))
  * `impl Default for T { fn default() -> Self { <expr> } }` for a bitflags type T  -> (T, "default", value)
  * module-level `const NAME: uN = <expr>;`                              -> (<file stem>, NAME, value)
    e.g. ("addr","ADDRESS_SPACE_SIZE"), ("page_table","ENTRY_COUNT")
  * every enum with only unit variants that has a `#[repr(uN)]` attribute, or an explicit
    discriminant, or is named in ARCH_ENUMS                               -> (T, Variant, discriminant)
    (implicit discriminants follow Rust's rule: previous + 1, first = 0)

<expr> is evaluated over integer literals (hex/dec/bin/oct, `_` separators, type suffixes),
`<< >> | & ^ + - * / %` with Rust precedence, parentheses, `!` (at the width of the constant), `as uN`,
paths to other constants (`Self::X`, `T::X`, `X`), `.bits()`, `T::from_bits_truncate(e)`,
`T::from_bits_retain(e)`, `Msr(e)`, `Msr::new(e)`, array literals.  Doc comments, comments and attributes
(`#[cfg(..)]`, `#[deprecated..]`, `#[doc..]`) are skipped (a deprecated alias is still a constant); items
under `#[cfg(test)]` and `macro_rules!` bodies are ignored.

Anything in one of the forms above that cannot be evaluated raises `ExtractError("<file>:<line>: ...")`
-- run.py reports that as a broken tie. Associated constants of other types (`&str`, structs built by
function calls such as `SegmentSelector::NULL`) and constants of generic impls (`Page<S>::SIZE = S::SIZE`)
are listed under "skipped" in the generated file.

NAMING SCHEME (stable; other models import these):
    namespace X86.Generated
    def <Type>_<NAME> : Nat            one per constant, e.g. PageTableFlags_PRESENT, Efer_MSR,
                                       ExceptionVector_Page, Size4KiB_SIZE, page_table_ENTRY_COUNT,
                                       Pat_DEFAULT_0 .. Pat_DEFAULT_7, Pat_DEFAULT_PACKED, MxCsr_default
    def consts : List (String × String × Nat)       every constant, source order (files sorted by path)
    def privateConsts : List (String × String)      the ones not reachable through the public API
    def flagTypes : List (String × Nat)             bitflags types with their bit width
    def flagCounts : List (String × Nat)            number of constants inside each bitflags! block
    def allBits (ty : String) : Nat                 OR of all constants of type `ty` (bitflags `all()`)
    def lookup (ty name : String) : Option Nat
"""
import glob
import os
import re
import sys

sys.path.insert(0, os.path.dirname(os.path.abspath(__file__)))
from extract import write_if_changed  # noqa: E402

INT_TYPES = {"u8": 8, "u16": 16, "u32": 32, "u64": 64, "u128": 128, "usize": 64,
             "i8": 8, "i16": 16, "i32": 32, "i64": 64, "isize": 64}

# unit-only enums without repr/explicit discriminants that are nevertheless architectural numbers
ARCH_ENUMS = {"DebugAddressRegisterNumber", "DescriptorTable"}


class ExtractError(Exception):
    pass


class Unevaluable(Exception):
    pass


# ----------------------------------------------------------------------------- tokenizer

class Tok:
    __slots__ = ("kind", "text", "line")

    def __init__(self, kind, text, line):
        self.kind, self.text, self.line = kind, text, line

    def __repr__(self):
        return f"{self.kind}:{self.text}@{self.line}"


PUNCT3 = ("<<=", ">>=", "..=", "...")
PUNCT2 = ("<<", ">>", "::", "=>", "->", "..", "==", "!=", "<=", ">=", "&&", "||", "+=", "-=", "*=", "/=",
          "|=", "&=", "^=", "%=")
IDENT_RE = re.compile(r"[A-Za-z_][A-Za-z0-9_]*")
NUM_RE = re.compile(r"0[xX][0-9a-fA-F_]+|0[bB][01_]+|0[oO][0-7_]+|[0-9][0-9_]*")


def tokenize(src, fname):
    toks = []
    i, n, line = 0, len(src), 1
    while i < n:
        c = src[i]
        if c == "\n":
            line += 1
            i += 1
        elif c in " \t\r":
            i += 1
        elif src.startswith("//", i):
            j = src.find("\n", i)
            i = n if j < 0 else j
        elif src.startswith("/*", i):
            depth, i = 1, i + 2
            while i < n and depth:
                if src.startswith("/*", i):
                    depth += 1
                    i += 2
                elif src.startswith("*/", i):
                    depth -= 1
                    i += 2
                else:
                    if src[i] == "\n":
                        line += 1
                    i += 1
            if depth:
                raise ExtractError(f"{fname}:{line}: unterminated block comment")
        elif c == '"' or (c == "b" and src.startswith('b"', i)):
            start_line = line
            i += 1 if c == '"' else 2
            while i < n and src[i] != '"':
                if src[i] == "\\":
                    i += 1
                if i < n and src[i] == "\n":
                    line += 1
                i += 1
            if i >= n:
                raise ExtractError(f"{fname}:{start_line}: unterminated string literal")
            i += 1
            toks.append(Tok("str", "", start_line))
        elif c == "r" and re.match(r'r#*"', src[i:i + 8] or ""):
            m = re.match(r'r(#*)"', src[i:])
            close = '"' + m.group(1)
            j = src.find(close, i + len(m.group(0)))
            if j < 0:
                raise ExtractError(f"{fname}:{line}: unterminated raw string")
            line += src.count("\n", i, j)
            i = j + len(close)
            toks.append(Tok("str", "", line))
        elif c == "'":
            # char literal or lifetime
            m = re.match(r"'(\\.[^']*|[^\\'])'", src[i:])
            if m:
                toks.append(Tok("char", m.group(0), line))
                i += len(m.group(0))
            else:
                m = IDENT_RE.match(src, i + 1)
                if not m:
                    raise ExtractError(f"{fname}:{line}: stray quote")
                toks.append(Tok("lifetime", m.group(0), line))
                i = m.end()
        elif c.isdigit():
            m = NUM_RE.match(src, i)
            j = m.end()
            text = m.group(0)
            # type suffix (u64, usize, ...) glued to the literal
            m2 = IDENT_RE.match(src, j)
            suffix = ""
            if m2 and m2.group(0) in INT_TYPES:
                suffix = m2.group(0)
                j = m2.end()
            elif m2 and not text.lower().startswith("0x"):
                suffix = "?" + m2.group(0)   # float exponent / float suffix: never a constant we evaluate
                j = m2.end()
            toks.append(Tok("num", text + ("@" + suffix if suffix else ""), line))
            i = j
        elif c.isalpha() or c == "_":
            m = IDENT_RE.match(src, i)
            toks.append(Tok("id", m.group(0), line))
            i = m.end()
        else:
            for group in (PUNCT3, PUNCT2):
                hit = next((p for p in group if src.startswith(p, i)), None)
                if hit:
                    break
            if hit:
                toks.append(Tok("p", hit, line))
                i += len(hit)
            else:
                toks.append(Tok("p", c, line))
                i += 1
    return toks


OPEN = {"(": ")", "[": "]", "{": "}"}


def match_close(toks, i, fname):
    """toks[i] is an opening bracket; return the index of its matching close."""
    stack = []
    j = i
    while j < len(toks):
        t = toks[j]
        if t.kind == "p":
            if t.text in OPEN:
                stack.append(OPEN[t.text])
            elif t.text in (")", "]", "}"):
                if not stack or stack[-1] != t.text:
                    raise ExtractError(f"{fname}:{t.line}: unbalanced '{t.text}'")
                stack.pop()
                if not stack:
                    return j
        j += 1
    raise ExtractError(f"{fname}:{toks[i].line}: unclosed '{toks[i].text}'")


# ----------------------------------------------------------------------------- raw definitions

class Def:
    """One constant as found in the source, before evaluation."""

    def __init__(self, ty, name, expr, fname, line, width, kind, public, self_ty=None, generics=()):
        self.ty, self.name, self.expr = ty, name, expr
        self.fname, self.line, self.width = fname, line, width
        self.kind = kind            # flag | assoc | msr | enum | modconst | default | array
        self.public = public
        self.self_ty = self_ty or ty
        self.generics = generics
        self.value = None
        self.state = 0              # 0 new, 1 evaluating, 2 done
        self.implicit_prev = None   # enums: previous variant (implicit discriminant = prev + 1)
        self.elem = None            # arrays: list of element values
        self.rust = None            # Rust expression reading the value from the compiled crate


class Extractor:
    def __init__(self, repo):
        self.repo = repo
        self.defs = {}        # (ty, name) -> Def
        self.order = []       # keys in source order
        self.flag_types = {}  # T -> width
        self.enum_types = {}  # T -> (repr width or None)
        self.type_path = {}   # T -> rust module path
        self.type_public = {}
        self.skipped = []     # (what, where, why)

    # -- helpers
    def err(self, fname, line, msg):
        raise ExtractError(f"{fname}:{line}: {msg}")

    def add(self, d):
        key = (d.ty, d.name)
        if key in self.defs:
            o = self.defs[key]
            self.err(d.fname, d.line, f"duplicate constant {d.ty}::{d.name} (also at {o.fname}:{o.line})")
        self.defs[key] = d
        self.order.append(key)

    # -- attributes: returns (index after attributes, list of attribute token lists)
    def attrs(self, toks, i, fname):
        out = []
        while i + 1 < len(toks) and toks[i].text == "#" and toks[i].kind == "p":
            j = i + 1
            if toks[j].text == "!":
                j += 1
            if toks[j].text != "[":
                self.err(fname, toks[i].line, "malformed attribute")
            k = match_close(toks, j, fname)
            out.append(toks[j + 1:k])
            i = k + 1
        return i, out

    @staticmethod
    def is_cfg_test(attr_list):
        for a in attr_list:
            txt = " ".join(t.text for t in a)
            if txt.startswith("cfg") and re.search(r"\btest\b", txt) and "not ( test" not in txt:
                return True
        return False

    @staticmethod
    def repr_width(attr_list):
        for a in attr_list:
            if a and a[0].text == "repr":
                for t in a:
                    if t.text in INT_TYPES:
                        return INT_TYPES[t.text]
        return None

    @staticmethod
    def has_repr_int(attr_list):
        return Extractor.repr_width(attr_list) is not None

    # -- item-level walk
    def walk_items(self, toks, lo, hi, fname, modpath, inline_mod, reachable):
        i = lo
        while i < hi:
            i, at = self.attrs(toks, i, fname)
            if i >= hi:
                break
            t = toks[i]
            # visibility
            j = i
            public = False
            if t.kind == "id" and t.text == "pub":
                public = True
                j += 1
                if j < hi and toks[j].text == "(":
                    public = False  # pub(crate) / pub(super)
                    j = match_close(toks, j, fname) + 1
            if j >= hi:
                break
            t = toks[j]
            skip_item = self.is_cfg_test(at)
            if t.kind == "id" and t.text == "mod" and j + 2 < hi and toks[j + 2].text == "{":
                close = match_close(toks, j + 2, fname)
                if not skip_item:
                    self.walk_items(toks, j + 3, close, fname, modpath, inline_mod + [toks[j + 1].text],
                                    reachable=False)
                i = close + 1
            elif t.kind == "id" and t.text == "macro_rules":
                k = j
                while toks[k].text not in OPEN:
                    k += 1
                i = match_close(toks, k, fname) + 1
            elif t.kind == "id" and t.text == "bitflags" and toks[j + 1].text == "!":
                close = match_close(toks, j + 2, fname)
                if not skip_item:
                    self.parse_bitflags(toks, j + 3, close, fname, modpath, reachable)
                i = close + 1
            elif t.kind == "id" and t.text == "enum":
                name = toks[j + 1].text
                k = j + 2
                while toks[k].text != "{":
                    if toks[k].text in ("(", "["):
                        k = match_close(toks, k, fname)
                    k += 1
                close = match_close(toks, k, fname)
                if not skip_item:
                    self.parse_enum(toks, k + 1, close, fname, name, at, public, modpath, reachable, toks[j].line)
                i = close + 1
            elif t.kind == "id" and t.text == "impl":
                k = j + 1
                while toks[k].text != "{":
                    if toks[k].text in ("(", "["):
                        k = match_close(toks, k, fname)
                    k += 1
                close = match_close(toks, k, fname)
                if not skip_item:
                    self.parse_impl(toks, j + 1, k, close, fname)
                i = close + 1
            elif t.kind == "id" and t.text == "const" and j + 2 < hi and toks[j + 1].kind == "id" \
                    and toks[j + 1].text not in ("fn", "unsafe", "extern") and toks[j + 2].text == ":":
                end = self.find_semicolon(toks, j, hi, fname)
                if not skip_item:
                    self.parse_const(toks, j, end, fname, ty=os.path.basename(fname)[:-3], self_ty=None,
                                     public=public and reachable, generics=(), module_level=True,
                                     modpath=modpath)
                i = end + 1
            else:
                # any other item: skip to its end (`;` at depth 0 or a brace group)
                k = j
                while k < hi:
                    tt = toks[k]
                    if tt.kind == "p" and tt.text in ("(", "["):
                        k = match_close(toks, k, fname) + 1
                        continue
                    if tt.kind == "p" and tt.text == "{":
                        k = match_close(toks, k, fname) + 1
                        # `struct X {..}` / `fn f() {..}` end here; `= Foo {..};` continues to `;`
                        if k < hi and toks[k].text == ";":
                            k += 1
                        break
                    if tt.kind == "p" and tt.text == ";":
                        k += 1
                        break
                    k += 1
                i = max(k, j + 1)

    def find_semicolon(self, toks, i, hi, fname):
        k = i
        while k < hi:
            t = toks[k]
            if t.kind == "p" and t.text in OPEN:
                k = match_close(toks, k, fname)
            elif t.kind == "p" and t.text == ";":
                return k
            k += 1
        self.err(fname, toks[i].line, "constant without terminating ';'")

    # -- bitflags! { ... }
    def parse_bitflags(self, toks, lo, hi, fname, modpath, reachable):
        i = lo
        found = False
        while i < hi:
            i, _at = self.attrs(toks, i, fname)
            if i >= hi:
                break
            public = False
            if toks[i].text == "pub":
                public = True
                i += 1
                if toks[i].text == "(":
                    public = False
                    i = match_close(toks, i, fname) + 1
            if toks[i].text == "impl":
                # bitflags 2 allows `impl T: uN { .. }`
                pass
            elif toks[i].text != "struct":
                self.err(fname, toks[i].line, f"bitflags!: expected `struct`, found `{toks[i].text}`")
            if not (toks[i + 1].kind == "id" and toks[i + 2].text == ":" and toks[i + 3].text in INT_TYPES
                    and toks[i + 4].text == "{"):
                self.err(fname, toks[i].line, "bitflags!: expected `struct T: uN {`")
            ty, width = toks[i + 1].text, INT_TYPES[toks[i + 3].text]
            if ty in self.flag_types:
                self.err(fname, toks[i].line, f"bitflags type {ty} defined twice")
            self.flag_types[ty] = width
            self.type_path[ty] = modpath
            self.type_public[ty] = public and reachable
            close = match_close(toks, i + 4, fname)
            k = i + 5
            while k < close:
                k, _a = self.attrs(toks, k, fname)
                if k >= close:
                    break
                if toks[k].text != "const":
                    self.err(fname, toks[k].line, f"bitflags! {ty}: expected `const`, found `{toks[k].text}`")
                name_t = toks[k + 1]
                if name_t.kind != "id" or toks[k + 2].text != "=":
                    self.err(fname, toks[k].line, f"bitflags! {ty}: expected `const NAME = ...;`")
                end = self.find_semicolon(toks, k, close, fname)
                if end is None or end > close:
                    self.err(fname, toks[k].line, f"bitflags! {ty}::{name_t.text}: missing ';'")
                d = Def(ty, name_t.text, toks[k + 3:end], fname, name_t.line, width, "flag",
                        public and reachable)
                d.rust = f"{ty}::{name_t.text}.bits() as u64"
                self.add(d)
                found = True
                k = end + 1
            i = close + 1
        if not found:
            self.err(fname, toks[lo].line if lo < len(toks) else 0, "bitflags! block without constants")

    # -- enum
    def parse_enum(self, toks, lo, hi, fname, name, at, public, modpath, reachable, line):
        variants = []  # (name, expr tokens or None, line)
        i = lo
        unit_only = True
        explicit = False
        while i < hi:
            i, _a = self.attrs(toks, i, fname)
            if i >= hi:
                break
            v = toks[i]
            if v.kind != "id":
                self.err(fname, v.line, f"enum {name}: expected a variant name, found `{v.text}`")
            i += 1
            expr = None
            if i < hi and toks[i].text in ("(", "{"):
                unit_only = False
                i = match_close(toks, i, fname) + 1
            if i < hi and toks[i].text == "=":
                j = i + 1
                while j < hi and toks[j].text != ",":
                    if toks[j].text in OPEN:
                        j = match_close(toks, j, fname)
                    j += 1
                expr = toks[i + 1:j]
                explicit = True
                i = j
            variants.append((v.text, expr, v.line))
            if i < hi:
                if toks[i].text != ",":
                    self.err(fname, toks[i].line, f"enum {name}: expected ',' after variant {v.text}")
                i += 1
        if not variants or not unit_only:
            return
        rw = self.repr_width(at)
        if not (rw or explicit or name in ARCH_ENUMS):
            return
        if name in self.enum_types or name in self.flag_types:
            self.err(fname, line, f"type {name} defined twice")
        self.enum_types[name] = rw
        self.type_path[name] = modpath
        self.type_public[name] = public and reachable
        prev = None
        for vname, expr, vline in variants:
            d = Def(name, vname, expr, fname, vline, rw or 64, "enum", public and reachable)
            d.implicit_prev = prev
            d.rust = f"{name}::{vname} as u64"
            self.add(d)
            prev = (name, vname)

    # -- impl blocks
    def parse_impl(self, toks, lo, brace, close, fname):
        """toks[lo:brace] is the impl header (after `impl`), toks[brace] == '{'."""
        i = lo
        generics = []
        if toks[i].text == "<":
            depth = 0
            while True:
                if toks[i].text == "<":
                    depth += 1
                elif toks[i].text == ">":
                    depth -= 1
                    if depth == 0:
                        i += 1
                        break
                elif toks[i].text == ">>":
                    depth -= 2
                    if depth <= 0:
                        i += 1
                        break
                elif depth == 1 and toks[i].kind == "id" and toks[i - 1].text in ("<", ","):
                    generics.append(toks[i].text)
                elif depth == 1 and toks[i].kind == "id" and toks[i].text == "const":
                    pass
                i += 1
        header = toks[i:brace]
        # strip a trailing where clause
        for k, t in enumerate(header):
            if t.kind == "id" and t.text == "where":
                header = header[:k]
                break
        trait = None
        fr = [k for k, t in enumerate(header) if t.kind == "id" and t.text == "for"]
        if fr:
            trait_toks, ty_toks = header[:fr[0]], header[fr[0] + 1:]
            tids = [t.text for t in trait_toks if t.kind == "id"]
            trait = tids[-1] if tids and not any(t.text == "<" for t in trait_toks) else \
                next((t.text for t in trait_toks if t.kind == "id"), None)
        else:
            ty_toks = header
        # the implementing type: last path segment before any generic arguments
        self_ty = None
        for t in ty_toks:
            if t.text == "<":
                break
            if t.kind == "id" and t.text not in ("crate", "super", "self", "dyn", "mut"):
                self_ty = t.text
        if self_ty is None or any(t.text == "$" for t in header):
            return
        generic_impl = self_ty in generics
        i = brace + 1
        while i < close:
            i, at = self.attrs(toks, i, fname)
            if i >= close:
                break
            j = i
            public = False
            if toks[j].text == "pub":
                public = True
                j += 1
                if toks[j].text == "(":
                    public = False
                    j = match_close(toks, j, fname) + 1
            if trait is not None:
                public = True  # trait items are as visible as the trait
            t = toks[j]
            if t.text == "const" and toks[j + 1].kind == "id" and toks[j + 1].text not in ("fn", "unsafe", "extern") \
                    and toks[j + 2].text == ":":
                end = self.find_semicolon(toks, j, close, fname)
                if not self.is_cfg_test(at) and not generic_impl:
                    self.parse_const(toks, j, end, fname, ty=self_ty, self_ty=self_ty, public=public,
                                     generics=tuple(generics), module_level=False, trait=trait)
                elif generic_impl:
                    self.skipped.append((f"{self_ty}::{toks[j + 1].text}", f"{fname}:{t.line}", "blanket impl"))
                i = end + 1
                continue
            # fn default() -> Self { expr } in `impl Default for <bitflags type>`
            k = j
            while k < close and toks[k].kind == "id" and toks[k].text in ("const", "unsafe", "extern", "async", "default"):
                k += 1
            if k < close and toks[k].text == "fn":
                fn_name = toks[k + 1].text
                m = k + 2
                while m < close and toks[m].text not in ("{", ";"):
                    if toks[m].text in ("(", "["):
                        m = match_close(toks, m, fname)
                    m += 1
                if m < close and toks[m].text == "{":
                    body_close = match_close(toks, m, fname)
                    if trait == "Default" and fn_name == "default" and not self.is_cfg_test(at):
                        self.pending_defaults.append((self_ty, toks[m + 1:body_close], fname, toks[k].line))
                    i = body_close + 1
                else:
                    i = m + 1
                continue
            # anything else (type aliases, macros...): skip one item
            k = j
            while k < close:
                if toks[k].text in ("(", "["):
                    k = match_close(toks, k, fname) + 1
                    continue
                if toks[k].text == "{":
                    k = match_close(toks, k, fname) + 1
                    break
                if toks[k].text == ";":
                    k += 1
                    break
                k += 1
            i = max(k, j + 1)

    def parse_const(self, toks, j, end, fname, ty, self_ty, public, generics, module_level, trait=None,
                    modpath=None):
        """toks[j] == `const`, toks[end] == `;`."""
        name_t = toks[j + 1]
        k = j + 3
        depth = 0
        eq = None
        while k < end:
            tx = toks[k].text
            if tx in OPEN:
                k = match_close(toks, k, fname)
            elif tx == "<":
                depth += 1
            elif tx == ">":
                depth -= 1
            elif tx == "=" and depth <= 0:
                eq = k
                break
            k += 1
        where = f"{fname}:{name_t.line}"
        if eq is None:
            return  # declaration without value (inside a trait-like context)
        ty_toks = toks[j + 3:eq]
        expr = toks[eq + 1:end]
        ty_txt = " ".join(t.text for t in ty_toks)
        full = f"{ty}::{name_t.text}"
        if any(t.text == "$" for t in ty_toks + expr):
            return
        if any(t.kind == "id" and t.text in generics for t in expr):
            self.skipped.append((full, where, "depends on a generic parameter of the impl"))
            return
        if len(ty_toks) == 1 and ty_toks[0].text in INT_TYPES:
            d = Def(ty, name_t.text, expr, fname, name_t.line, INT_TYPES[ty_toks[0].text],
                    "modconst" if module_level else "assoc", public, self_ty, generics)
            if module_level:
                d.rust = f"{modpath}::{name_t.text} as u64"
            elif trait:
                d.rust = f"<{ty} as {trait}>::{name_t.text} as u64"
            else:
                d.rust = f"{ty}::{name_t.text} as u64"
            self.add(d)
        elif len(ty_toks) == 1 and ty_toks[0].text == "Msr":
            d = Def(ty, name_t.text, expr, fname, name_t.line, 32, "msr", public, self_ty, generics)
            d.rust = f"msr_number(&{ty}::{name_t.text})"
            self.add(d)
        elif len(ty_toks) == 1 and ty_toks[0].kind == "id" and not module_level:
            # `Self` / a named type: resolved later (bitflags preset if the type is a bitflags type)
            self.pending_typed.append((ty, name_t, ty_toks[0].text, expr, fname, public, self_ty, generics))
        elif ty_toks and ty_toks[0].text == "[" and not module_level:
            close = match_close(toks, j + 3, fname)
            inner = toks[j + 4:close]
            semi = next((q for q, t in enumerate(inner) if t.text == ";"), None)
            if semi is None:
                self.skipped.append((full, where, f"slice type {ty_txt}"))
                return
            elem_ty = inner[:semi]
            d = Def(ty, name_t.text, expr, fname, name_t.line, 8, "array", public, self_ty, generics)
            d.elem_ty = elem_ty[-1].text if elem_ty else None
            d.len_expr = inner[semi + 1:]
            self.pending_arrays.append(d)
        else:
            self.skipped.append((full, where, f"type {ty_txt}"))

    # ------------------------------------------------------------------------- evaluation

    def value_of(self, key, ctx):
        d = self.defs.get(key)
        if d is None:
            raise Unevaluable(f"unknown constant {key[0]}::{key[1]}")
        if d.state == 2:
            return d.value
        if d.state == 1:
            raise ExtractError(f"{d.fname}:{d.line}: cyclic definition of {d.ty}::{d.name}")
        d.state = 1
        try:
            if d.kind == "enum" and d.expr is None:
                v = 0 if d.implicit_prev is None else self.value_of(d.implicit_prev, d) + 1
            else:
                v = Eval(self, d).run()
            if isinstance(v, list):
                raise Unevaluable("array where a number is expected")
            if not (0 <= v < (1 << d.width)):
                raise Unevaluable(f"value {v} does not fit {d.width} bits")
        except Unevaluable as ex:
            raise ExtractError(f"{d.fname}:{d.line}: cannot evaluate {d.ty}::{d.name}: {ex}") from None
        d.value, d.state = v, 2
        return v

    def all_bits(self, ty, ctx):
        acc = 0
        for key in self.order:
            d = self.defs[key]
            if d.ty == ty and d.kind == "flag":
                acc |= self.value_of(key, ctx)
        return acc

    # ------------------------------------------------------------------------- driver

    def run(self):
        self.pending_typed = []
        self.pending_arrays = []
        self.pending_defaults = []
        src = os.path.join(self.repo, "src")
        files = sorted(glob.glob(os.path.join(src, "**", "*.rs"), recursive=True))
        if not files:
            raise ExtractError(f"{src}: no Rust sources found")
        for path in files:
            rel = os.path.relpath(path, self.repo)
            toks = tokenize(open(path, encoding="utf-8").read(), rel)
            parts = os.path.relpath(path, src)[:-3].split(os.sep)
            if parts[-1] in ("mod", "lib"):
                parts = parts[:-1]
            modpath = "::".join(["x86_64"] + parts)
            self.walk_items(toks, 0, len(toks), rel, modpath, [], reachable=True)
        # typed associated constants: bitflags presets
        for (ty, name_t, decl_ty, expr, fname, public, self_ty, generics) in self.pending_typed:
            target = self_ty if decl_ty == "Self" else decl_ty
            if target in self.flag_types:
                d = Def(ty, name_t.text, expr, fname, name_t.line, self.flag_types[target], "flag-preset",
                        public and self.type_public.get(ty, False), self_ty, generics)
                d.rust = f"{ty}::{name_t.text}.bits() as u64"
                self.add(d)
            else:
                self.skipped.append((f"{ty}::{name_t.text}", f"{fname}:{name_t.line}", f"type {decl_ty}"))
        # Default::default() of bitflags types
        for (ty, body, fname, line) in self.pending_defaults:
            if ty in self.flag_types:
                d = Def(ty, "default", body, fname, line, self.flag_types[ty], "default", True, ty)
                d.rust = f"<{ty} as Default>::default().bits() as u64"
                self.add(d)
        # arrays
        for d in self.pending_arrays:
            try:
                vals = Eval(self, d).run()
                if not isinstance(vals, list):
                    raise Unevaluable("array literal expected")
                if not all(isinstance(v, int) and 0 <= v < 256 for v in vals):
                    raise Unevaluable("array elements must be byte-sized numbers")
            except Unevaluable as ex:
                if d.elem_ty in self.enum_types or d.elem_ty in INT_TYPES or d.elem_ty in self.flag_types:
                    raise ExtractError(f"{d.fname}:{d.line}: cannot evaluate {d.ty}::{d.name}: {ex}") from None
                self.skipped.append((f"{d.ty}::{d.name}", f"{d.fname}:{d.line}", str(ex)))
                continue
            conv = ".bits()" if d.elem_ty in self.flag_types or d.elem_ty == "PatMemoryType" else ""
            if d.elem_ty in self.enum_types:
                conv = ""
            for i, v in enumerate(vals):
                e = Def(d.ty, f"{d.name}_{i}", None, d.fname, d.line, 8, "array-elem", d.public, d.self_ty)
                e.value, e.state = v, 2
                e.rust = f"{d.ty}::{d.name}[{i}] as u64" if not conv else f"{d.ty}::{d.name}[{i}]{conv} as u64"
                self.add(e)
            if len(vals) <= 8:
                p = Def(d.ty, f"{d.name}_PACKED", None, d.fname, d.line, 64, "array-packed", d.public, d.self_ty)
                p.value, p.state = sum(v << (8 * i) for i, v in enumerate(vals)), 2
                p.rust = "[" + ", ".join(f"{d.ty}::{d.name}[{i}] as u64" for i in range(len(vals))) + \
                         "].iter().enumerate().map(|(i, v)| v << (8 * i)).sum::<u64>()"
                self.add(p)
        # source order: files by path, then line (array elements keep their index order)
        pos = {k: i for i, k in enumerate(self.order)}
        self.order.sort(key=lambda k: (self.defs[k].fname, self.defs[k].line, pos[k]))
        # evaluate everything
        for key in self.order:
            self.value_of(key, None)
        return self


class Eval:
    """Constant-expression evaluator over a token list (precedence climbing, Rust precedences)."""

    BIN = [("|",), ("^",), ("&",), ("<<", ">>"), ("+", "-"), ("*", "/", "%")]

    def __init__(self, ex, d):
        self.ex, self.d = ex, d
        self.t = list(d.expr or [])
        self.i = 0

    def peek(self):
        return self.t[self.i] if self.i < len(self.t) else None

    def take(self, text=None):
        tok = self.peek()
        if tok is None or (text is not None and tok.text != text):
            raise Unevaluable(f"expected `{text}`" + (f", found `{tok.text}`" if tok else " at end of expression"))
        self.i += 1
        return tok

    def run(self):
        # a `fn default()` body may end without `;` and may be a single tail expression only
        if any(t.kind == "id" and t.text in ("let", "return", "if", "match", "loop", "while", "for") for t in self.t):
            raise Unevaluable("statement-level code")
        v = self.binary(0)
        if self.peek() is not None:
            raise Unevaluable(f"unexpected `{self.peek().text}`")
        return v

    def binary(self, level):
        if level == len(self.BIN):
            return self.cast()
        v = self.binary(level + 1)
        while self.peek() is not None and self.peek().kind == "p" and self.peek().text in self.BIN[level]:
            op = self.take().text
            r = self.binary(level + 1)
            if isinstance(v, list) or isinstance(r, list):
                raise Unevaluable("operator applied to an array")
            if op == "|":
                v |= r
            elif op == "^":
                v ^= r
            elif op == "&":
                v &= r
            elif op == "<<":
                if r >= 128:
                    raise Unevaluable("shift amount too large")
                v <<= r
            elif op == ">>":
                v >>= r
            elif op == "+":
                v += r
            elif op == "-":
                v -= r
                if v < 0:
                    raise Unevaluable("negative intermediate value")
            elif op == "*":
                v *= r
            elif op in ("/", "%"):
                if r == 0:
                    raise Unevaluable("division by zero")
                v = v // r if op == "/" else v % r
        return v

    def cast(self):
        v = self.unary()
        while self.peek() is not None and self.peek().kind == "id" and self.peek().text == "as":
            self.take()
            ty = self.take()
            if ty.text not in INT_TYPES:
                raise Unevaluable(f"cast to `{ty.text}`")
            v &= (1 << INT_TYPES[ty.text]) - 1
        return v

    def unary(self):
        tok = self.peek()
        if tok is not None and tok.kind == "p" and tok.text == "!":
            self.take()
            v = self.unary()
            return ~v & ((1 << self.d.width) - 1)
        return self.postfix()

    def postfix(self):
        v, ty_of_v = self.atom()
        while self.peek() is not None and self.peek().text == ".":
            self.take(".")
            m = self.take()
            if m.kind != "id":
                raise Unevaluable(f"unexpected `.{m.text}`")
            self.take("(")
            if m.text in ("bits", "into", "get"):
                self.take(")")
            elif m.text in ("union",):
                arg = self.binary(0)
                self.take(")")
                v |= arg
            else:
                raise Unevaluable(f"method call `.{m.text}()`")
        return v

    def atom(self):
        tok = self.take()
        if tok.kind == "num":
            text, _, suffix = tok.text.partition("@")
            if suffix.startswith("?"):
                raise Unevaluable(f"non-integer literal {text}{suffix[1:]}")
            return int(text.replace("_", ""), 0) if not re.match(r"0[0-9]", text.replace("_", "")) \
                else int(text.replace("_", ""), 10), None
        if tok.kind == "p" and tok.text == "(":
            v = self.binary(0)
            self.take(")")
            return v, None
        if tok.kind == "p" and tok.text == "[":
            vals = []
            while self.peek() is not None and self.peek().text != "]":
                vals.append(self.binary(0))
                if self.peek() is not None and self.peek().text == ",":
                    self.take(",")
            self.take("]")
            return vals, None
        if tok.kind == "p" and tok.text == "<":
            # <T as Trait>::NAME / <T>::NAME
            ty = self.take().text
            while self.peek() is not None and self.peek().text != ">":
                self.take()
            self.take(">")
            self.take("::")
            name = self.take().text
            return self.resolve([ty, name]), None
        if tok.kind == "id":
            path = [tok.text]
            while self.peek() is not None and self.peek().text == "::":
                self.take("::")
                path.append(self.take().text)
            # drop leading crate::/self::/super:: and module segments (lowercase)
            segs = [p for p in path if p not in ("crate", "self", "super")]
            if self.peek() is not None and self.peek().text == "(":
                # function / tuple-struct constructor call
                self.take("(")
                args = []
                while self.peek() is not None and self.peek().text != ")":
                    args.append(self.binary(0))
                    if self.peek() is not None and self.peek().text == ",":
                        self.take(",")
                self.take(")")
                fn = segs[-1]
                owner = segs[-2] if len(segs) > 1 else None
                if owner == "Self":
                    owner = self.d.self_ty
                if (segs == ["Msr"] or segs[-2:] == ["Msr", "new"]) and len(args) == 1:
                    return args[0], None
                if fn == "from_bits_truncate" and owner in self.ex.flag_types and len(args) == 1:
                    return args[0] & self.ex.all_bits(owner, self.d), None
                if fn == "from_bits_retain" and owner in self.ex.flag_types and len(args) == 1:
                    return args[0], None
                raise Unevaluable(f"call to `{'::'.join(path)}`")
            return self.resolve(segs), None
        raise Unevaluable(f"unexpected `{tok.text}`")

    def resolve(self, segs):
        d = self.d
        if len(segs) == 1:
            name = segs[0]
            for key in ((os.path.basename(d.fname)[:-3], name), (d.self_ty, name)):
                if key in self.ex.defs:
                    return self.ex.value_of(key, d)
            raise Unevaluable(f"unknown name `{name}`")
        ty, name = segs[-2], segs[-1]
        if ty == "Self":
            ty = d.self_ty
        if ty in d.generics:
            raise Unevaluable(f"generic parameter `{ty}`")
        return self.ex.value_of((ty, name), d)


# ----------------------------------------------------------------------------- output

def lean_ident(s):
    return re.sub(r"[^A-Za-z0-9_]", "_", s)


def render_lean(ex):
    L = []
    L.append("/-")
    L.append("GENERATED by translator/gen_consts.py from the Rust source (src/**/*.rs) -- do not edit.")
    L.append("Rewritten on every `run.py` invocation. Naming scheme: see the header of gen_consts.py.")
    L.append("Only core is imported: this file is linked into the `driver` executable.")
    L.append("-/")
    L.append("namespace X86.Generated")
    L.append("")
    cur = None
    for key in ex.order:
        d = ex.defs[key]
        if d.ty != cur:
            cur = d.ty
            L.append(f"-- {d.ty}  ({d.fname})")
        L.append(f"def {lean_ident(d.ty)}_{lean_ident(d.name)} : Nat := 0x{d.value:x}")
    L.append("")
    L.append("/-- Every extracted constant: (type, name, value), in source order. -/")
    L.append("def consts : List (String × String × Nat) := [")
    rows = [f'  ("{d.ty}", "{d.name}", 0x{d.value:x})' for d in (ex.defs[k] for k in ex.order)]
    L.append(",\n".join(rows))
    L.append("]")
    L.append("")
    L.append("/-- Constants that are not reachable through the crate's public API (not validated by the harness). -/")
    L.append("def privateConsts : List (String × String) := [")
    L.append(",\n".join(f'  ("{d.ty}", "{d.name}")' for d in (ex.defs[k] for k in ex.order) if not readable(ex, d)))
    L.append("]")
    L.append("")
    L.append("/-- bitflags types and their bit width. -/")
    L.append("def flagTypes : List (String × Nat) := [")
    L.append(",\n".join(f'  ("{t}", {w})' for t, w in ex.flag_types.items()))
    L.append("]")
    L.append("")
    L.append("/-- Number of constants declared inside each `bitflags!` block (what `Flags::FLAGS` of the compiled")
    L.append("type enumerates; presets and `default` are associated items outside the block). -/")
    L.append("def flagCounts : List (String × Nat) := [")
    L.append(",\n".join(f'  ("{t}", {sum(1 for d in ex.defs.values() if d.ty == t and d.kind == "flag")})'
                        for t in ex.flag_types))
    L.append("]")
    L.append("")
    L.append("def lookup (ty name : String) : Option Nat :=")
    L.append("  (consts.find? (fun c => c.1 == ty && c.2.1 == name)).map (·.2.2)")
    L.append("")
    L.append("/-- `T::all().bits()` of a bitflags type: the OR of all its constants. -/")
    L.append("def allBits (ty : String) : Nat :=")
    L.append("  (consts.filter (fun c => c.1 == ty)).foldl (fun acc c => acc ||| c.2.2) 0")
    L.append("")
    if ex.skipped:
        L.append("/- Associated constants seen but not extracted (not numbers / not evaluable at text level):")
        for what, where, why in ex.skipped:
            L.append(f"   {what}  ({where}): {why}")
        L.append("-/")
        L.append("")
    L.append("end X86.Generated")
    return "\n".join(L) + "\n"


def readable(ex, d):
    """Can the harness read this constant from the compiled crate through the public API?"""
    return bool(d.public and d.rust and (d.kind == "modconst" or d.ty in ex.type_path or d.ty in ex.assoc_path))


def render_rust(ex):
    R = []
    R.append("// GENERATED by translator/gen_consts.py -- do not edit. Rewritten on every run.py invocation.")
    R.append("// The same constants as lean/X86Model/Generated/Consts.lean, read from the COMPILED crate.")
    R.append("#![allow(deprecated, unused_imports, clippy::all)]")
    R.append("use super::c19::msr_number;")
    types = sorted(set(d.ty for d in ex.defs.values() if d.public and d.rust and d.ty in ex.type_path))
    for t in types:
        R.append(f"use {ex.type_path[t]}::{t};")
    extra = set()
    for d in ex.defs.values():
        if d.public and d.rust and d.ty not in ex.type_path:
            extra.add(d.ty)
    for t in sorted(extra):
        p = ex.assoc_path.get(t)
        if p:
            R.append(f"use {p}::{t};")
    for tr in sorted(ex.trait_uses):
        R.append(f"use {tr};")
    R.append("")
    R.append("pub fn all() -> Vec<(&'static str, &'static str, u64)> {")
    R.append("    let mut v: Vec<(&'static str, &'static str, u64)> = Vec::new();")
    n = 0
    for key in ex.order:
        d = ex.defs[key]
        if readable(ex, d):
            R.append(f'    v.push(("{d.ty}", "{d.name}", {d.rust}));')
            n += 1
    R.append("    v")
    R.append("}")
    R.append("")
    R.append("/// Independent enumeration: the named flags of every bitflags type as the COMPILED crate lists them")
    R.append("/// (`bitflags::Flags::FLAGS`), so a constant the text-level extractor missed or mis-named shows up.")
    R.append("pub fn flag_types() -> Vec<(&'static str, Vec<(&'static str, u64)>)> {")
    R.append("    let mut v: Vec<(&'static str, Vec<(&'static str, u64)>)> = Vec::new();")
    for t in ex.flag_types:
        if ex.type_public.get(t):
            R.append(f'    v.push(("{t}", <{t} as bitflags::Flags>::FLAGS.iter()'
                     f'.map(|f| (f.name(), f.value().bits() as u64)).collect()));')
    R.append("    v")
    R.append("}")
    R.append("")
    R.append("/// Constants the extractor found that cannot be read through the public API.")
    R.append("pub const NOT_READABLE: &[(&str, &str)] = &[")
    for key in ex.order:
        d = ex.defs[key]
        if not readable(ex, d):
            R.append(f'    ("{d.ty}", "{d.name}"),')
    R.append("];")
    return "\n".join(R) + "\n", n


def locate_types(ex):
    """Module paths of the non-bitflags, non-enum owner types (`Efer`, `Size4KiB`, `Pat`, ...) and of the
    traits needed to name trait constants: found by a text search for `pub struct|enum|trait NAME`."""
    ex.assoc_path = {}
    ex.trait_uses = set()
    need = set(d.ty for d in ex.defs.values() if d.ty not in ex.type_path and d.kind != "modconst")
    traits = set()
    for d in ex.defs.values():
        m = re.match(r"<(\w+) as (\w+)>", d.rust or "")
        if m and m.group(2) != "Default":
            traits.add(m.group(2))
    src = os.path.join(ex.repo, "src")
    for path in sorted(glob.glob(os.path.join(src, "**", "*.rs"), recursive=True)):
        text = open(path, encoding="utf-8").read()
        parts = os.path.relpath(path, src)[:-3].split(os.sep)
        if parts[-1] in ("mod", "lib"):
            parts = parts[:-1]
        modpath = "::".join(["x86_64"] + parts)
        for name in list(need):
            if re.search(rf"^pub (struct|enum) {name}\b", text, re.M):
                ex.assoc_path[name] = modpath
                need.discard(name)
        for name in list(traits):
            if re.search(rf"^pub trait {name}\b", text, re.M):
                ex.trait_uses.add(f"{modpath}::{name}")
                traits.discard(name)
    # owner types that were not found as public top-level items: their constants are not readable
    for d in ex.defs.values():
        if d.ty in need:
            d.public = False


def extract(repo):
    ex = Extractor(repo).run()
    locate_types(ex)
    return ex


def generate(repo, outdir):
    ex = extract(repo)
    files = []
    lean_path = os.path.join(outdir, "Consts.lean")
    write_if_changed(lean_path, render_lean(ex))
    files.append(lean_path)
    root = os.path.dirname(os.path.dirname(os.path.abspath(__file__)))
    rust_path = os.path.join(root, "harness", "src", "c19_consts.rs")
    rust, _n = render_rust(ex)
    write_if_changed(rust_path, rust)
    files.append(rust_path)
    return files


if __name__ == "__main__":
    ex = extract(sys.argv[1] if len(sys.argv) > 1 else "/repo")
    for key in ex.order:
        d = ex.defs[key]
        print(f"{d.ty}::{d.name} = {d.value:#x}  [{d.kind}{'' if d.public else ', private'}] {d.fname}:{d.line}")
    print(f"# {len(ex.order)} constants; skipped: {ex.skipped}")
