#!/usr/bin/env python3
"""Translator: every `asm!` block of the crate -> lean/X86Model/Generated/AsmSites.lean.

For each `asm!(...)` invocation in /repo/src/**/*.rs (text level, balanced-parenthesis scan):
  file      path relative to the repository
  func      name of the enclosing `fn` (nearest preceding `fn <name>` at lower brace depth), prefixed with the
            enclosing macro name for sites inside `macro_rules!` bodies (`get_reg_impl!/get_reg`)
  insns     the instructions of the template, lower-cased, whitespace-normalised (`in al, dx`, `mov {}, cr3`)
  mnemonics their first words: the instruction mnemonics of the template, in order: template string literals (and `concat!(..)`
            pieces, macro metavariables rendered as `$`) are joined, split at `;` and newlines; labels (`55:`) dropped
  options   the `options(...)` list, sorted
  operands  the operand direction/register specs in order (`in(reg)`, `out("al")`, `lateout(reg)`, `const`, `sym`)
The generated file is rewritten on every run; the conformance theorems (`Spec/AsmOptions.lean`, property files)
are re-checked by the Lean kernel against what the source says now. Anything unparsable raises (broken tie).
"""
import os
import re
import sys

sys.path.insert(0, os.path.dirname(os.path.abspath(__file__)))
from extract import write_if_changed  # noqa: E402


def strip_comments(src):
    out = []
    i, n = 0, len(src)
    while i < n:
        if src.startswith("//", i):
            while i < n and src[i] != "\n":
                i += 1
        elif src.startswith("/*", i):
            j = src.find("*/", i + 2)
            j = n if j < 0 else j + 2
            out.append("\n" * src.count("\n", i, j))
            i = j
        elif src[i] == '"':
            j = i + 1
            while j < n and src[j] != '"':
                j += 2 if src[j] == "\\" else 1
            out.append(src[i:j + 1])
            i = j + 1
        else:
            out.append(src[i])
            i += 1
    return "".join(out)


def balanced(src, i):
    """src[i] == '(' -> index just after the matching ')' (string literals skipped)."""
    depth, n = 0, len(src)
    while i < n:
        c = src[i]
        if c == '"':
            i += 1
            while src[i] != '"':
                i += 2 if src[i] == "\\" else 1
        elif c == "(":
            depth += 1
        elif c == ")":
            depth -= 1
            if depth == 0:
                return i + 1
        i += 1
    raise ValueError("unbalanced parentheses in asm! invocation")


def split_top(s):
    """split at top-level commas"""
    parts, depth, cur, i = [], 0, [], 0
    while i < len(s):
        c = s[i]
        if c == '"':
            j = i + 1
            while s[j] != '"':
                j += 2 if s[j] == "\\" else 1
            cur.append(s[i:j + 1])
            i = j + 1
            continue
        if c in "([{":
            depth += 1
        elif c in ")]}":
            depth -= 1
        if c == "," and depth == 0:
            parts.append("".join(cur).strip())
            cur = []
        else:
            cur.append(c)
        i += 1
    if "".join(cur).strip():
        parts.append("".join(cur).strip())
    return parts


def template_text(arg):
    """string literal or concat!(...) -> text; None if the argument is not a template piece"""
    arg = arg.strip()
    if arg.startswith('"'):
        return bytes(arg[1:-1], "utf-8").decode("unicode_escape")
    m = re.match(r"concat!\s*\((.*)\)\s*$", arg, re.S)
    if m:
        out = []
        for piece in split_top(m.group(1)):
            piece = piece.strip()
            if piece.startswith('"'):
                out.append(bytes(piece[1:-1], "utf-8").decode("unicode_escape"))
            elif piece.startswith("$"):
                out.append("$")
            else:
                raise ValueError(f"concat! piece not understood: {piece!r}")
        return "".join(out)
    return None


def enclosing(src, pos):
    """(macro name or None, fn name) enclosing byte offset pos"""
    fn = None
    for m in re.finditer(r"\bfn\s+([A-Za-z_][A-Za-z0-9_]*)", src[:pos]):
        fn = m.group(1)
    mac = None
    for m in re.finditer(r"macro_rules!\s*([A-Za-z_][A-Za-z0-9_]*)\s*\{", src[:pos]):
        # is pos inside this macro's braces?
        depth, i = 0, m.end() - 1
        while i < len(src):
            if src[i] == "{":
                depth += 1
            elif src[i] == "}":
                depth -= 1
                if depth == 0:
                    break
            i += 1
        if m.start() < pos < i:
            mac = m.group(1)
    return mac, fn


def sites_of(repo):
    sites = []
    for dirpath, _, files in os.walk(os.path.join(repo, "src")):
        for f in sorted(files):
            if not f.endswith(".rs"):
                continue
            path = os.path.join(dirpath, f)
            rel = os.path.relpath(path, repo)
            src = strip_comments(open(path).read())
            for m in re.finditer(r"(?<![A-Za-z0-9_])asm!\s*\(", src):
                start = m.end() - 1
                end = balanced(src, start)
                args = split_top(src[start + 1:end - 1])
                tmpl, options, operands = [], [], []
                for a in args:
                    t = template_text(a)
                    if t is not None:
                        tmpl.append(t)
                        continue
                    mo = re.match(r"options\s*\((.*)\)\s*$", a, re.S)
                    if mo:
                        options += [o.strip() for o in mo.group(1).split(",") if o.strip()]
                        continue
                    mo = re.match(r"(?:[A-Za-z_][A-Za-z0-9_]*\s*=\s*)?(in|out|lateout|inout|inlateout|const|sym)\b\s*(\([^)]*\))?", a)
                    if mo:
                        operands.append(mo.group(1) + (mo.group(2) or "").replace(" ", ""))
                        continue
                    mo = re.match(r"clobber_abi\s*\(", a)
                    if mo:
                        operands.append("clobber_abi")
                        continue
                    raise ValueError(f"{rel}: asm! argument not understood: {a!r}")
                if not tmpl:
                    raise ValueError(f"{rel}: asm! without template at offset {start}")
                mnems, insns = [], []
                for ins in re.split(r"[;\n]", "\n".join(tmpl)):
                    ins = " ".join(ins.strip().lower().split())
                    if not ins or re.match(r"^[0-9a-z_.]+:$", ins):
                        continue
                    mnems.append(ins.split()[0])
                    insns.append(ins)
                mac, fn = enclosing(src, m.start())
                if fn is None:
                    raise ValueError(f"{rel}: asm! outside any fn at offset {start}")
                line = src.count("\n", 0, m.start()) + 1
                sites.append({"file": rel, "func": (mac + "!/" if mac else "") + fn, "line": line,
                              "mnemonics": mnems, "insns": insns, "options": sorted(options), "operands": operands})
    sites.sort(key=lambda s: (s["file"], s["line"]))
    return sites


def lstr(x):
    return '"' + x.replace("\\", "\\\\").replace('"', '\\"') + '"'


def llist(xs):
    return "[" + ", ".join(lstr(x) for x in xs) + "]"


def generate(repo, outdir):
    sites = sites_of(repo)
    if len(sites) < 20:
        raise ValueError(f"only {len(sites)} asm! sites found: extraction broken")
    lines = ["/-", "GENERATED by translator/gen_asm.py from the `asm!` blocks of /repo/src — do not edit.",
             "Rewritten on every run.", "-/", "namespace X86.Generated", "",
             "/-- One `asm!` block of the crate. -/",
             "structure AsmSite where", "  file : String", "  func : String", "  mnemonics : List String", "  insns : List String",
             "  options : List String", "  operands : List String", "  deriving Repr, DecidableEq", "",
             "def asmSites : List AsmSite := ["]
    rows = []
    for s in sites:
        rows.append(f"  ⟨{lstr(s['file'])}, {lstr(s['func'])}, {llist(s['mnemonics'])}, {llist(s['insns'])}, {llist(s['options'])}, {llist(s['operands'])}⟩")
    lines.append(",\n".join(rows))
    lines += ["]", "", "end X86.Generated", ""]
    path = os.path.join(outdir, "AsmSites.lean")
    write_if_changed(path, "\n".join(lines))
    return [path]


if __name__ == "__main__":
    import json
    print(json.dumps(sites_of(sys.argv[1] if len(sys.argv) > 1 else "/repo"), indent=1))
